// gosym: bounded symbolic execution of Go SSA for the /verif checks.
package main

import (
	_ "embed"
	"encoding/json"
	"flag"
	"fmt"
	"os"
	"os/exec"
	"path/filepath"
	"regexp"
	"runtime"
	"sort"
	"strings"
	"sync"
	"time"

	"golang.org/x/tools/go/packages"
	"golang.org/x/tools/go/ssa"
	"golang.org/x/tools/go/ssa/ssautil"

	"gosym/smt"
	"gosym/sym"
)

//go:embed rt.go.tmpl
var rtTemplate string

type ParamSpec struct {
	Quick    []int `json:"quick"`    // [lo,hi] inclusive, or explicit list when Values is set
	Thorough []int `json:"thorough"` // same
	List     bool  `json:"list"`     // treat Quick/Thorough as explicit value lists
}

type HarnessSpec struct {
	Func           string               `json:"func"`
	Params         map[string]ParamSpec `json:"params"`
	PanicViolation bool                 `json:"panic_violation"`
	PanicLabel     string               `json:"panic_label"`
	Reach          []string             `json:"reach"`
	Twin           bool                 `json:"twin"` // reachability twin: must come back violated
	MaxPaths       int                  `json:"max_paths"`
	Tier           string               `json:"tier"` // "" = both, "thorough" = thorough only
	KnownPanics    []KnownPanic         `json:"known_panics"`
	NoReplay       bool                 `json:"no_replay"`
	NoValidate     bool                 `json:"no_validate"` // skip the native re-run of completed-path models
}

type KnownPanic struct {
	ID    string `json:"id"`
	Match string `json:"match"` // substring of "kind@function"
}

type Spec struct {
	Property   string            `json:"property"`
	ModuleDir  string            `json:"module_dir"`
	Package    string            `json:"package"`
	Overlay    map[string]string `json:"overlay"`
	Rewrites   []SourceRewrite   `json:"source_rewrites"`
	Harnesses  []HarnessSpec     `json:"harnesses"`
	Units      []Unit            `json:"units"`
	InitExtra  []string          `json:"init_extra"`
	TaintOK    []string          `json:"taint_ok"`
	Env        map[string]string `json:"env"`
	TimeoutMs  map[string]int    `json:"timeout_ms"`
	MaxSteps   int               `json:"max_steps"`
	MaxDecs    int               `json:"max_decisions"`
	ConcLimit  int               `json:"conc_limit"`
	Bounds     []string          `json:"bounds"`
	Assumes    []string          `json:"assumptions"`
	Validation int               `json:"validation_samples"`
	Workers    int               `json:"workers"`
	IntTokens  bool              `json:"int_tokens"`
	BudgetS    map[string]int    `json:"budget_s"`
	Solver     string            `json:"solver"` // "" = z3 (cvc5 int-mode one-shot fallback); "cvc5int" = persistent cvc5 --solve-bv-as-int=sum
}

type KnownFinding struct {
	Property string `json:"property"`
	ID       string `json:"id"`
	What     string `json:"what"`
	Status   string `json:"status"` // "known" | "fixed"
	Commit   string `json:"commit,omitempty"`
}

type job struct {
	h    *harnessRun
	inst *instance
	item sym.WorkItem
}

type instance struct {
	params map[string]int
	key    string
}

type harnessRun struct {
	spec      *HarnessSpec
	fn        *ssa.Function
	instances []*instance
	mu        sync.Mutex
	paths     int
	symPaths  int
	decisions int
	steps     int
	outcomes  map[string]int
	reached   map[string]bool
	violation *foundViolation
	known     map[string]*foundKnown
	inconc    []string
	stopped   bool
	samples   []any
	okModels  []okSample // models of completed paths, replayed natively as translator validation
	wantOK    int
}

type okSample struct {
	Params map[string]int
	Model  map[string]uint64
	Events []string
}

type foundViolation struct {
	Label  string
	Model  map[string]uint64
	Params map[string]int
	Path   []int64
	Detail string
	Events []string
}
type foundKnown struct {
	ID, Label string
	Model     map[string]uint64
	Params    map[string]int
	Path      []int64
	Events    []string
}

var (
	verifDir = "/verif"
	repoDir  = "/repo"
)

func main() {
	specPath := flag.String("spec", "", "harness spec.json")
	tier := flag.String("tier", "quick", "quick|thorough")
	trace := flag.Bool("trace", false, "trace")
	only := flag.String("only", "", "run only this harness function")
	dumpSMT := flag.String("dump-smt", "", "write the SMT transcript of worker 0 to this file")
	workersFlag := flag.Int("workers", 0, "number of workers")
	replayOnly := flag.String("replay", "", "replay a stored model natively and exit")
	flag.Parse()
	if v := os.Getenv("VERIF_DIR"); v != "" {
		verifDir = v
	}
	if v := os.Getenv("VERIF_REPO"); v != "" {
		repoDir = v
	}
	t0 := time.Now()
	// exec.LookPath consults this process's PATH: put the repository's own toolchain first.
	if tool := "/root/go/pkg/mod/golang.org/toolchain@v0.0.1-go1.25.2.linux-amd64/bin"; dirExists(tool) {
		os.Setenv("PATH", tool+":"+os.Getenv("PATH"))
	}
	for k, v := range map[string]string{"GOFLAGS": "-mod=mod", "GOTOOLCHAIN": "local", "GOPROXY": "off", "GOSUMDB": "off"} {
		os.Setenv(k, v)
	}
	var spec Spec
	b, err := os.ReadFile(*specPath)
	if err != nil {
		fatal(2, "INCONCLUSIVE cannot read spec: %v", err)
	}
	if err := json.Unmarshal(b, &spec); err != nil {
		fatal(2, "INCONCLUSIVE bad spec: %v", err)
	}
	absSpec, _ := filepath.Abs(*specPath)
	hdir := filepath.Dir(absSpec)
	if spec.ModuleDir == "" {
		spec.ModuleDir = "."
	}
	modDir := filepath.Join(repoDir, spec.ModuleDir)
	pkgDir := filepath.Join(modDir, spec.Package)
	seed := 0
	fmt.Sscan(os.Getenv("VERIF_SEED"), &seed)

	r := &runner{spec: &spec, tier: *tier, hdir: hdir, modDir: modDir, pkgDir: pkgDir, seed: seed, t0: t0, trace: *trace, only: *only, dumpSMT: *dumpSMT}
	r.workers = *workersFlag
	if r.workers == 0 {
		r.workers = spec.Workers
	}
	if r.workers == 0 {
		r.workers = runtime.NumCPU()
		if r.workers > 16 {
			r.workers = 16
		}
	}
	r.loadKnown()
	if *replayOnly != "" {
		os.Exit(r.replayFile(*replayOnly))
	}
	code := r.run()
	if r.rewriteDir != "" {
		os.RemoveAll(r.rewriteDir)
	}
	os.Exit(code)
}

func fatal(code int, format string, args ...any) {
	fmt.Printf(format+"\n", args...)
	os.Exit(code)
}

type runner struct {
	spec     *Spec
	tier     string
	hdir     string
	modDir   string
	pkgDir   string
	seed     int
	t0       time.Time
	trace    bool
	only     string
	dumpSMT  string
	workers  int
	known    []KnownFinding
	accepted map[string]bool
	pkgName  string
	prog     *ssa.Program
	hpkg     *ssa.Package
	scratch  string
	loadSecs float64

	// accumulated over units
	allRuns   []*harnessRun
	mstats    machineStats
	inconc    []string
	exit      int
	nviol     int
	replayed  int
	seenKF    map[string]bool
	loadTotal float64
	validated int
	validationNotes []string
	rewriteDir string
}

// Unit is one Go package under test with its overlay files and harness functions.
type Unit struct {
	ModuleDir string            `json:"module_dir"`
	Package   string            `json:"package"`
	Overlay   map[string]string `json:"overlay"`
	Harnesses []HarnessSpec     `json:"harnesses"`
	Rewrites  []SourceRewrite   `json:"source_rewrites"`
}

// SourceRewrite replaces one expression in a repository source file for the executor and for the
// native runs alike (e.g. the construction of a network client by a call into the harness). The
// rewritten file is derived from /repo's current source on every run and injected as an overlay;
// the text must occur exactly Count times (default 1), otherwise the run is inconclusive.
type SourceRewrite struct {
	File  string `json:"file"` // relative to the module directory
	From  string `json:"from"`
	To    string `json:"to"`
	Count int    `json:"count"`
}

func (r *runner) loadKnown() {
	r.accepted = map[string]bool{}
	b, err := os.ReadFile(filepath.Join(verifDir, "known_findings.json"))
	if err != nil {
		return
	}
	var kf struct {
		Findings []KnownFinding `json:"findings"`
	}
	if err := json.Unmarshal(b, &kf); err != nil {
		fatal(2, "INCONCLUSIVE bad known_findings.json: %v", err)
	}
	r.known = kf.Findings
	for _, k := range kf.Findings {
		if k.Property == r.spec.Property && k.Status == "known" {
			r.accepted[k.ID] = true
		}
	}
}

func (r *runner) toolEnv() []string {
	env := os.Environ()
	tool := "/root/go/pkg/mod/golang.org/toolchain@v0.0.1-go1.25.2.linux-amd64/bin"
	out := []string{}
	for _, e := range env {
		if strings.HasPrefix(e, "PATH=") || strings.HasPrefix(e, "GOFLAGS=") || strings.HasPrefix(e, "GOTOOLCHAIN=") ||
			strings.HasPrefix(e, "GOPROXY=") || strings.HasPrefix(e, "GOSUMDB=") {
			continue
		}
		out = append(out, e)
	}
	path := os.Getenv("PATH")
	if _, err := os.Stat(tool); err == nil {
		path = tool + ":" + path
	}
	out = append(out, "PATH="+path, "GOFLAGS=-mod=mod", "GOTOOLCHAIN=local", "GOPROXY=off", "GOSUMDB=off")
	return out
}

func (r *runner) overlayFiles(native bool) (map[string]string, error) {
	ov := map[string]string{}
	for dst, src := range r.spec.Overlay {
		ov[filepath.Join(r.pkgDir, dst)] = filepath.Join(r.hdir, src)
	}
	for i, rw := range r.spec.Rewrites {
		orig := filepath.Join(r.modDir, rw.File)
		b, err := os.ReadFile(orig)
		if err != nil {
			return nil, err
		}
		want := rw.Count
		if want == 0 {
			want = 1
		}
		if n := strings.Count(string(b), rw.From); n != want {
			return nil, fmt.Errorf("source rewrite %d: %q occurs %d times in %s, expected %d", i, rw.From, n, rw.File, want)
		}
		if r.rewriteDir == "" {
			r.rewriteDir, err = os.MkdirTemp("", "gosym-rw-")
			if err != nil {
				return nil, err
			}
		}
		// several rewrites of one file apply in order
		src := orig
		if prev, ok := ov[orig]; ok {
			src = prev
			if b, err = os.ReadFile(src); err != nil {
				return nil, err
			}
		}
		out := filepath.Join(r.rewriteDir, fmt.Sprintf("%d_%s", i, filepath.Base(rw.File)))
		if err := os.WriteFile(out, []byte(strings.ReplaceAll(string(b), rw.From, rw.To)), 0o644); err != nil {
			return nil, err
		}
		ov[orig] = out
	}
	return ov, nil
}

var pkgClause = regexp.MustCompile(`(?m)^package\s+(\w+)`)

func (r *runner) load() error {
	t0 := time.Now()
	// package name from the first overlay file
	for _, src := range r.spec.Overlay {
		b, err := os.ReadFile(filepath.Join(r.hdir, src))
		if err != nil {
			return err
		}
		m := pkgClause.FindSubmatch(b)
		if m == nil {
			return fmt.Errorf("no package clause in %s", src)
		}
		r.pkgName = string(m[1])
		break
	}
	var err error
	r.scratch, err = os.MkdirTemp("", "gosym-")
	if err != nil {
		return err
	}
	rtPath := filepath.Join(r.scratch, "zz_vsym_rt.go")
	if err := os.WriteFile(rtPath, []byte(strings.Replace(rtTemplate, "PKGNAME", r.pkgName, 1)), 0o644); err != nil {
		return err
	}
	overlay := map[string][]byte{}
	ov, oerr := r.overlayFiles(false)
	if oerr != nil {
		return oerr
	}
	ov[filepath.Join(r.pkgDir, "zz_vsym_rt.go")] = rtPath
	for dst, src := range ov {
		b, err := os.ReadFile(src)
		if err != nil {
			return err
		}
		overlay[dst] = b
	}
	cfg := &packages.Config{
		Mode:    packages.LoadAllSyntax,
		Dir:     r.modDir,
		Env:     r.toolEnv(),
		Overlay: overlay,
	}
	pkgs, err := packages.Load(cfg, spec2pattern(r.spec.Package))
	if err != nil {
		return err
	}
	nerr := 0
	packages.Visit(pkgs, nil, func(p *packages.Package) {
		for _, e := range p.Errors {
			if nerr < 10 {
				fmt.Fprintln(os.Stderr, "load error:", e)
			}
			nerr++
		}
	})
	if nerr > 0 {
		return fmt.Errorf("%d package load errors", nerr)
	}
	prog, ssapkgs := ssautil.AllPackages(pkgs, ssa.InstantiateGenerics)
	prog.Build()
	r.prog = prog
	for i, p := range pkgs {
		if p.Name == r.pkgName || len(pkgs) == 1 {
			r.hpkg = ssapkgs[i]
		}
	}
	if r.hpkg == nil {
		return fmt.Errorf("harness package not found")
	}
	r.loadSecs = time.Since(t0).Seconds()
	return nil
}

func (r *runner) budgetSecs() float64 {
	if v, ok := r.spec.BudgetS[r.tier]; ok {
		return float64(v)
	}
	// wall-clock guards against runaway exploration, generous enough for a loaded machine
	// (the registered bounds finish in 10 s .. 5 min quick, up to ~40 min thorough, on 16 idle cores)
	if r.tier == "thorough" {
		return 5400
	}
	return 1200
}

func spec2pattern(p string) string {
	if strings.HasPrefix(p, "./") || p == "." {
		return p
	}
	return "./" + p
}

func (r *runner) initAllow(path string) bool {
	for _, e := range r.spec.InitExtra {
		if path == e || strings.HasPrefix(path, e+"/") {
			return true
		}
	}
	first := path
	if i := strings.Index(path, "/"); i >= 0 {
		first = path[:i]
	}
	if !strings.Contains(first, ".") { // standard library
		switch {
		case path == "runtime" || strings.HasPrefix(path, "runtime/"), path == "reflect", path == "internal/reflectlite",
			path == "syscall", path == "os" || strings.HasPrefix(path, "os/"), path == "net" || strings.HasPrefix(path, "net/"),
			strings.HasPrefix(path, "crypto/") || path == "crypto", path == "testing", path == "time", path == "unsafe",
			strings.HasPrefix(path, "internal/") && path != "internal/bytealg" && path != "internal/stringslite" && path != "internal/itoa" && path != "internal/byteorder",
			path == "log" || strings.HasPrefix(path, "log/"), path == "encoding/json", path == "encoding/xml", path == "regexp" || strings.HasPrefix(path, "regexp/"),
			path == "flag", path == "mime" || strings.HasPrefix(path, "mime/"), path == "html" || strings.HasPrefix(path, "html/"),
			path == "text/template" || strings.HasPrefix(path, "text/template/"), strings.HasPrefix(path, "vendor/"),
			path == "encoding/gob", path == "encoding/asn1", path == "math/big", path == "math/rand" || path == "math/rand/v2",
			path == "compress/flate", path == "compress/gzip", path == "hash/crc32", path == "go/token" || strings.HasPrefix(path, "go/"),
			path == "database/sql" || strings.HasPrefix(path, "database/"), path == "embed", path == "plugin", path == "expvar", path == "sync", path == "sync/atomic", path == "context":
			return path == "context" || path == "sync" || path == "sync/atomic" || path == "hash/crc32" || path == "math/rand"
		}
		return true
	}
	if strings.HasPrefix(path, "github.com/KafScale/") || strings.HasPrefix(path, "github.com/kafscale/") {
		return true
	}
	if strings.HasPrefix(path, "github.com/twmb/franz-go/pkg/kmsg") || strings.HasPrefix(path, "github.com/twmb/franz-go/pkg/kerr") ||
		strings.HasPrefix(path, "github.com/twmb/franz-go/pkg/kbin") || strings.HasPrefix(path, "golang.org/x/sync") {
		return true
	}
	return false
}

func (r *runner) newMachine(dump bool) (*sym.Machine, error) {
	to := 10000
	if r.tier == "thorough" {
		to = 60000
	}
	if v, ok := r.spec.TimeoutMs[r.tier]; ok {
		to = v
	}
	bin := "z3"
	if r.spec.Solver != "" {
		bin = r.spec.Solver
	}
	s, err := smt.New(bin, to)
	if err != nil {
		return nil, err
	}
	if dump && r.dumpSMT != "" {
		f, _ := os.Create(r.dumpSMT)
		s.Dump = f
	}
	m := sym.NewMachine(r.prog, s)
	m.Trace = r.trace
	m.IntTokens = r.spec.IntTokens
	m.InitAllow = r.initAllow
	m.InitExtra = r.spec.InitExtra
	m.TaintOK = map[string]bool{}
	for _, p := range r.spec.TaintOK {
		m.TaintOK[p] = true
	}
	for k, v := range r.spec.Env {
		m.Env[k] = v
	}
	for k := range r.accepted {
		m.Known[k] = true
	}
	if r.spec.MaxSteps > 0 {
		m.Limits.MaxSteps = r.spec.MaxSteps
	}
	if r.spec.MaxDecs > 0 {
		m.Limits.MaxDecisions = r.spec.MaxDecs
	}
	if r.spec.ConcLimit > 0 {
		m.Limits.ConcLimit = r.spec.ConcLimit
	}
	m.InitAll(r.hpkg)
	return m, nil
}

func expand(ps ParamSpec, tier string) []int {
	v := ps.Quick
	if tier == "thorough" && ps.Thorough != nil {
		v = ps.Thorough
	}
	if ps.List {
		return v
	}
	if len(v) == 2 {
		var out []int
		for i := v[0]; i <= v[1]; i++ {
			out = append(out, i)
		}
		return out
	}
	return v
}

func (r *runner) instancesOf(h *HarnessSpec) []*instance {
	names := make([]string, 0, len(h.Params))
	for n := range h.Params {
		names = append(names, n)
	}
	sort.Strings(names)
	insts := []*instance{{params: map[string]int{}}}
	for _, n := range names {
		var next []*instance
		for _, in := range insts {
			for _, v := range expand(h.Params[n], r.tier) {
				p := map[string]int{}
				for k, x := range in.params {
					p[k] = x
				}
				p[n] = v
				next = append(next, &instance{params: p})
			}
		}
		insts = next
	}
	for _, in := range insts {
		var parts []string
		for _, n := range names {
			parts = append(parts, fmt.Sprintf("%s=%d", n, in.params[n]))
		}
		in.key = strings.Join(parts, ",")
	}
	return insts
}

// run executes every unit of the spec (one unit = one Go package with its overlay and
// harnesses) and writes one evidence file for the property.
func (r *runner) run() int {
	units := r.spec.Units
	if len(units) == 0 {
		units = []Unit{{ModuleDir: r.spec.ModuleDir, Package: r.spec.Package, Overlay: r.spec.Overlay, Harnesses: r.spec.Harnesses, Rewrites: r.spec.Rewrites}}
	}
	for _, u := range units {
		if u.ModuleDir == "" {
			u.ModuleDir = "."
		}
		r.spec.ModuleDir, r.spec.Package, r.spec.Overlay, r.spec.Harnesses = u.ModuleDir, u.Package, u.Overlay, u.Harnesses
		r.spec.Rewrites = u.Rewrites
		r.modDir = filepath.Join(repoDir, u.ModuleDir)
		r.pkgDir = filepath.Join(r.modDir, u.Package)
		r.prog, r.hpkg = nil, nil
		hruns, machines, ok := r.runUnit()
		if ok {
			r.collect(hruns)
		}
		r.allRuns = append(r.allRuns, hruns...)
		for _, m := range machines {
			if m != nil {
				r.mstats.add(m)
			}
		}
		r.loadTotal += r.loadSecs
		if r.rewriteDir != "" {
			os.RemoveAll(r.rewriteDir)
			r.rewriteDir = ""
		}
		if r.scratch != "" {
			os.RemoveAll(r.scratch)
			r.scratch = ""
		}
	}
	for id := range r.accepted {
		if !r.seenKF[id] {
			fmt.Printf("NOTE: known finding %s of %s was not reproduced by this run\n", id, r.spec.Property)
		}
	}
	exit := r.exit
	if exit == 0 && len(r.inconc) > 0 {
		exit = 2
	}
	for _, s := range r.inconc {
		fmt.Println("INCONCLUSIVE " + s)
	}
	r.writeEvidenceFull(r.allRuns, exit, r.inconc, r.nviol, r.replayed)
	if exit == 0 {
		tp, ts := 0, 0
		for _, h := range r.allRuns {
			tp += h.paths
			ts += h.symPaths
		}
		fmt.Printf("OK property=%s tier=%s harnesses=%d paths=%d (symbolic %d) wall=%.1fs\n", r.spec.Property, r.tier, len(r.allRuns), tp, ts, time.Since(r.t0).Seconds())
	}
	return exit
}

func (r *runner) runUnit() ([]*harnessRun, []*sym.Machine, bool) {
	if err := r.load(); err != nil {
		r.inconc = append(r.inconc, fmt.Sprintf("build %s: %v", r.spec.Package, err))
		return nil, nil, false
	}
	var hruns []*harnessRun
	for i := range r.spec.Harnesses {
		hs := &r.spec.Harnesses[i]
		if r.only != "" && hs.Func != r.only {
			continue
		}
		if hs.Tier == "thorough" && r.tier != "thorough" {
			continue
		}
		fn := r.hpkg.Func(hs.Func)
		if fn == nil {
			r.inconc = append(r.inconc, fmt.Sprintf("harness function %s not found", hs.Func))
			return nil, nil, false
		}
		hr := &harnessRun{spec: hs, fn: fn, outcomes: map[string]int{}, reached: map[string]bool{}, known: map[string]*foundKnown{}}
		hr.instances = r.instancesOf(hs)
		hruns = append(hruns, hr)
	}

	// work queue
	var (
		mu      sync.Mutex
		cond    = sync.NewCond(&mu)
		stack   []job
		pending int
	)
	for _, hr := range hruns {
		for i := len(hr.instances) - 1; i >= 0; i-- {
			stack = append(stack, job{h: hr, inst: hr.instances[i]})
		}
	}
	pending = len(stack)
	var wg sync.WaitGroup
	machines := make([]*sym.Machine, r.workers)
	var initErr error
	var imu sync.Mutex
	for w := 0; w < r.workers; w++ {
		wg.Add(1)
		go func(w int) {
			defer wg.Done()
			m, err := r.newMachine(w == 0)
			if err != nil {
				imu.Lock()
				initErr = err
				imu.Unlock()
				mu.Lock()
				pending = 0
				cond.Broadcast()
				mu.Unlock()
				return
			}
			machines[w] = m
			defer m.Solver.Close()
			for {
				mu.Lock()
				for len(stack) == 0 && pending > 0 {
					cond.Wait()
				}
				if pending == 0 {
					mu.Unlock()
					cond.Broadcast()
					return
				}
				j := stack[len(stack)-1]
				stack = stack[:len(stack)-1]
				mu.Unlock()

				var alts []sym.WorkItem
				j.h.mu.Lock()
				if !j.h.stopped && time.Since(r.t0).Seconds() > r.budgetSecs() {
					j.h.stopped = true
					j.h.inconc = append(j.h.inconc, fmt.Sprintf("%s: wall-clock budget of %.0fs exhausted after %d paths", j.h.spec.Func, r.budgetSecs(), j.h.paths))
				}
				skip := j.h.stopped
				j.h.mu.Unlock()
				if !skip {
					m.Params = j.inst.params
					j.h.mu.Lock()
					m.WantOkModel = !j.h.spec.Twin && !j.h.spec.NoReplay && !j.h.spec.NoValidate && len(j.h.okModels) < 3 && j.h.wantOK < 12
					if m.WantOkModel {
						j.h.wantOK++
					}
					j.h.mu.Unlock()
					res := m.RunPath(j.h.fn, j.item)
					alts = r.record(j, &res)
				}
				mu.Lock()
				for i := len(alts) - 1; i >= 0; i-- {
					stack = append(stack, job{h: j.h, inst: j.inst, item: alts[i]})
				}
				pending += len(alts) - 1
				if pending == 0 || len(alts) > 0 {
					cond.Broadcast()
				}
				mu.Unlock()
			}
		}(w)
	}
	wg.Wait()
	if initErr != nil {
		r.inconc = append(r.inconc, fmt.Sprintf("solver start: %v", initErr))
		return hruns, machines, false
	}
	return hruns, machines, true
}

func (r *runner) record(j job, res *sym.PathResult) []sym.WorkItem {
	h := j.h
	h.mu.Lock()
	defer h.mu.Unlock()
	h.paths++
	if pl := os.Getenv("GOSYM_PATHLOG"); pl != "" {
		if f, err := os.OpenFile(pl, os.O_APPEND|os.O_CREATE|os.O_WRONLY, 0o644); err == nil {
			fmt.Fprintf(f, "%s %s %v\n", j.inst.key, res.Outcome, res.Path)
			f.Close()
		}
	}
	if res.SymDecs > 0 {
		h.symPaths++
	}
	h.decisions += res.NewDecs
	h.steps += res.Steps
	h.outcomes[res.Outcome]++
	for _, t := range res.Reached {
		h.reached[t] = true
	}
	if len(h.samples) < 3 && res.SymDecs > 0 && (res.Outcome == "ok" || res.Outcome == "panic") {
		h.samples = append(h.samples, map[string]any{"harness": h.spec.Func, "instance": j.inst.key, "outcome": res.Outcome, "decisions": res.Path, "reached": res.Reached, "steps": res.Steps, "note": trunc(res.Msg, 200)})
	}
	if res.Outcome == "ok" && res.OkModel != nil && len(h.okModels) < 3 {
		h.okModels = append(h.okModels, okSample{Params: j.inst.params, Model: res.OkModel, Events: res.Events})
	}
	for _, k := range res.Known {
		if _, dup := h.known[k.ID]; !dup {
			h.known[k.ID] = &foundKnown{ID: k.ID, Label: k.Label, Model: k.Model, Params: j.inst.params, Path: k.Path, Events: res.Events}
		}
	}
	if res.Unknowns > 0 {
		h.inconc = append(h.inconc, fmt.Sprintf("%s[%s]: %d solver unknowns on path", h.spec.Func, j.inst.key, res.Unknowns))
	}
	max := h.spec.MaxPaths
	if max == 0 {
		max = 200000
	}
	if h.paths > max {
		h.inconc = append(h.inconc, fmt.Sprintf("%s: more than %d paths", h.spec.Func, max))
		h.stopped = true
		return nil
	}
	switch res.Outcome {
	case "violation":
		if h.violation == nil {
			v := res.Violation
			h.violation = &foundViolation{Label: v.Label, Model: v.Model, Params: j.inst.params, Path: v.Path, Events: res.Events}
			if !h.spec.Twin {
				h.stopped = true
			}
		}
		if h.spec.Twin {
			h.stopped = true
		}
		return nil
	case "panic":
		if h.spec.PanicViolation {
			site := res.Panic.String()
			for _, kp := range h.spec.KnownPanics {
				if r.accepted[kp.ID] && strings.Contains(site, kp.Match) {
					if _, dup := h.known[kp.ID]; !dup {
						h.known[kp.ID] = &foundKnown{ID: kp.ID, Label: "panic", Model: res.PanicModel, Params: j.inst.params, Path: res.Path, Events: res.Events}
					}
					return res.Alts
				}
			}
			if h.violation == nil {
				label := h.spec.PanicLabel
				if label == "" {
					label = r.spec.Property + "/no-panic"
				}
				h.violation = &foundViolation{Label: label, Model: res.PanicModel, Params: j.inst.params, Path: res.Path, Detail: site, Events: res.Events}
				h.stopped = true
			}
			return nil
		}
	case "unsupported", "limit", "deadlock":
		h.inconc = append(h.inconc, fmt.Sprintf("%s[%s]: %s: %s", h.spec.Func, j.inst.key, res.Outcome, trunc(res.Msg, 1500)))
		if len(h.inconc) > 20 {
			h.stopped = true
		}
	}
	return res.Alts
}

func trunc(s string, n int) string {
	if len(s) > n {
		return s[:n] + "…"
	}
	return s
}

// collect replays and reports what one unit found, accumulating into the runner.
func (r *runner) collect(hruns []*harnessRun) {
	var inconc []string
	exit := 0
	var violations []*foundViolation
	replayed := 0
	type kfLine struct{ id, what string }
	var kfLines []kfLine
	if r.seenKF == nil {
		r.seenKF = map[string]bool{}
	}
	defer func() {
		r.inconc = append(r.inconc, inconc...)
		if exit > r.exit {
			r.exit = exit
		}
		r.nviol += len(violations)
		r.replayed += replayed
		for _, k := range kfLines {
			if !r.seenKF[k.id] {
				r.seenKF[k.id] = true
				fmt.Printf("KNOWN-FINDING: property=%s %s [%s]\n", r.spec.Property, k.what, k.id)
			}
		}
	}()
	for _, h := range hruns {
		inconc = append(inconc, h.inconc...)
		if h.spec.Twin {
			if h.violation == nil {
				inconc = append(inconc, fmt.Sprintf("%s: reachability twin did not come back violated (vacuous harness)", h.spec.Func))
			}
			continue
		}
		for _, tag := range h.spec.Reach {
			if !h.reached[tag] {
				inconc = append(inconc, fmt.Sprintf("%s: vacuous: tag %q reached on no feasible path", h.spec.Func, tag))
			}
		}
		ids := make([]string, 0, len(h.known))
		for id := range h.known {
			ids = append(ids, id)
		}
		sort.Strings(ids)
		for _, id := range ids {
			k := h.known[id]
			ok, out := true, ""
			if !h.spec.NoReplay {
				ok, out = r.replay(h, k.Model, k.Params, k.Events, k.Label, id)
				replayed++
			}
			if !ok {
				inconc = append(inconc, fmt.Sprintf("%s: ENCODER-MISMATCH known finding %s did not reproduce natively: %s", h.spec.Func, id, trunc(out, 300)))
				continue
			}
			what := id
			for _, kf := range r.known {
				if kf.ID == id && kf.Property == r.spec.Property {
					what = kf.What
				}
			}
			kfLines = append(kfLines, kfLine{id, what})
		}
		if h.violation != nil {
			v := h.violation
			ok, out := true, ""
			var path string
			if !h.spec.NoReplay {
				ok, out = r.replay(h, v.Model, v.Params, v.Events, v.Label, "")
				replayed++
			}
			path = r.storeReplay(h, v)
			if !ok {
				inconc = append(inconc, fmt.Sprintf("%s: ENCODER-MISMATCH violation of %s did not reproduce natively (model %s): %s", h.spec.Func, v.Label, path, trunc(out, 400)))
				continue
			}
			violations = append(violations, v)
			fmt.Printf("VIOLATION property=%s replay=%s\n", r.spec.Property, path)
			fmt.Printf("  harness=%s label=%s instance=%v %s\n", h.spec.Func, v.Label, v.Params, v.Detail)
			exit = 1
		}
	}
	if os.Getenv("GOSYM_NO_VALIDATE") == "" {
		agreed, bad := r.validate(hruns)
		r.validated += agreed
		r.validationNotes = append(r.validationNotes, bad...)
	}
}

// validate re-runs models of completed (assertion-clean) paths natively: the real build must
// complete them without tripping an assertion or panicking. It returns how many agreed and a
// description of those that did not.
func (r *runner) validate(hruns []*harnessRun) (int, []string) {
	type item struct {
		fn   string
		file string
	}
	dir, err := os.MkdirTemp("", "gosym-validate-")
	if err != nil {
		return 0, nil
	}
	defer os.RemoveAll(dir)
	if os.Getenv("GOSYM_KEEP") != "" {
		fmt.Fprintln(os.Stderr, "validation scratch kept at", dir+".kept")
		defer os.Rename(dir, dir+".kept")
	}
	var items []item
	for _, h := range hruns {
		for i, s := range h.okModels {
			mb, _ := json.Marshal(map[string]any{"params": s.Params, "values": s.Model, "events": s.Events})
			f := filepath.Join(dir, fmt.Sprintf("%s-%d.json", h.spec.Func, i))
			os.WriteFile(f, mb, 0o644)
			items = append(items, item{h.spec.Func, f})
		}
	}
	if len(items) == 0 {
		return 0, nil
	}
	var sb strings.Builder
	fmt.Fprintf(&sb, "package %s\n\nimport \"testing\"\n\nfunc TestVsymValidate(t *testing.T) {\n", r.pkgName)
	for _, it := range items {
		fmt.Fprintf(&sb, "\tvsymUseModel(%q)\n\tvsymRunReplay(%q, %s)\n", it.file, it.fn, it.fn)
	}
	sb.WriteString("}\n")
	rtPath := filepath.Join(dir, "rt.go")
	os.WriteFile(rtPath, []byte(strings.Replace(rtTemplate, "PKGNAME", r.pkgName, 1)), 0o644)
	testPath := filepath.Join(dir, "validate_test.go")
	os.WriteFile(testPath, []byte(sb.String()), 0o644)
	repl := map[string]string{}
	ov, _ := r.overlayFiles(true)
	for dst, src := range ov {
		repl[dst] = src
	}
	repl[filepath.Join(r.pkgDir, "zz_vsym_rt.go")] = rtPath
	repl[filepath.Join(r.pkgDir, "zz_vsym_validate_test.go")] = testPath
	ob, _ := json.Marshal(map[string]any{"Replace": repl})
	ovPath := filepath.Join(dir, "overlay.json")
	os.WriteFile(ovPath, ob, 0o644)
	cmd := exec.Command("go", "test", "-vet=off", "-count=1", "-timeout", "900s", "-run", "^TestVsymValidate$", "-v", "-overlay", ovPath, spec2pattern(r.spec.Package))
	cmd.Dir = r.modDir
	cmd.Env = r.toolEnv()
	out, _ := cmd.CombinedOutput()
	re := regexp.MustCompile(`VSYM-OUTCOME (\S+) (.*)`)
	ms := re.FindAllStringSubmatch(string(out), -1)
	agreed := 0
	var bad []string
	for i, m := range ms {
		if m[2] == "ok" {
			agreed++
		} else if i < len(items) {
			bad = append(bad, fmt.Sprintf("%s: native outcome %q for a path the executor completed", m[1], trunc(m[2], 120)))
		}
	}
	if len(ms) < len(items) {
		bad = append(bad, fmt.Sprintf("native validation run ended after %d of %d models: %s", len(ms), len(items), trunc(string(out), 300)))
	}
	return agreed, bad
}

func (r *runner) storeReplay(h *harnessRun, v *foundViolation) string {
	dir := filepath.Join(verifDir, "replays")
	os.MkdirAll(dir, 0o755)
	name := fmt.Sprintf("%s-%s-%s.json", r.spec.Property, h.spec.Func, sanitize(v.Label))
	p := filepath.Join(dir, name)
	b, _ := json.MarshalIndent(map[string]any{"property": r.spec.Property, "harness": h.spec.Func, "label": v.Label, "params": v.Params,
		"values": v.Model, "sched": v.Path, "events": v.Events, "detail": v.Detail, "spec": filepath.Join(r.hdir, "spec.json")}, "", " ")
	os.WriteFile(p, b, 0o644)
	return p
}

func sanitize(s string) string {
	return regexp.MustCompile(`[^A-Za-z0-9_.-]+`).ReplaceAllString(s, "_")
}

// replay runs the harness natively with the model's values; it reports whether the same
// assertion label (or any panic, for panic violations) is observed.
func (r *runner) replay(h *harnessRun, model map[string]uint64, params map[string]int, events []string, label, knownID string) (bool, string) {
	ok, msg := r.replayOnce(h, model, params, events, label)
	// a recorded schedule is followed natively by timing-based gating, and code that ranges over
	// a Go map runs in a different order natively: a counterexample is confirmed by any native
	// run that shows the same failure, so a miss is retried a few times
	for try := 1; !ok && try < 5; try++ {
		ok, msg = r.replayOnce(h, model, params, events, label)
	}
	return ok, msg
}

func (r *runner) replayOnce(h *harnessRun, model map[string]uint64, params map[string]int, events []string, label string) (bool, string) {
	out, err := r.nativeRun(h.spec.Func, model, params, events)
	if err != nil && out == "" {
		return false, err.Error()
	}
	re := regexp.MustCompile(`VSYM-OUTCOME \S+ (.*)`)
	m := re.FindStringSubmatch(out)
	isPanicLabel := label == "panic" || strings.HasSuffix(label, "/no-panic") || (h.spec.PanicLabel != "" && label == h.spec.PanicLabel)
	if m == nil {
		if isPanicLabel && (strings.Contains(out, "out of memory") || strings.Contains(out, "fatal error:") || strings.Contains(out, "panic:")) {
			return true, "process crashed: " + trunc(out, 200)
		}
		return false, "no outcome line: " + trunc(out, 600)
	}
	oc := m[1]
	if strings.HasPrefix(oc, "alloc-exceeded:") {
		return isPanicLabel, oc
	}
	if strings.HasPrefix(oc, "assert-failed:") {
		return oc == "assert-failed:"+label, oc
	}
	if strings.HasPrefix(oc, "panic:") {
		return label == "panic" || strings.HasSuffix(label, "/no-panic") || label == h.spec.PanicLabel, oc
	}
	return false, oc
}

func (r *runner) nativeRun(fn string, model map[string]uint64, params map[string]int, events []string) (string, error) {
	dir, err := os.MkdirTemp("", "gosym-replay-")
	if err != nil {
		return "", err
	}
	defer os.RemoveAll(dir)
	mb, _ := json.Marshal(map[string]any{"params": params, "values": model, "events": events})
	modelPath := filepath.Join(dir, "model.json")
	os.WriteFile(modelPath, mb, 0o644)
	rtPath := filepath.Join(dir, "rt.go")
	os.WriteFile(rtPath, []byte(strings.Replace(rtTemplate, "PKGNAME", r.pkgName, 1)), 0o644)
	testPath := filepath.Join(dir, "replay_test.go")
	test := fmt.Sprintf("package %s\n\nimport \"testing\"\n\nfunc TestVsymReplay(t *testing.T) {\n\tif oc := vsymRunReplay(%q, %s); oc != \"ok\" && oc != \"assume-failed\" {\n\t\tt.Fatalf(\"outcome %%s\", oc)\n\t}\n}\n", r.pkgName, fn, fn)
	os.WriteFile(testPath, []byte(test), 0o644)
	repl := map[string]string{}
	ov, _ := r.overlayFiles(true)
	for dst, src := range ov {
		repl[dst] = src
	}
	repl[filepath.Join(r.pkgDir, "zz_vsym_rt.go")] = rtPath
	repl[filepath.Join(r.pkgDir, "zz_vsym_replay_test.go")] = testPath
	ob, _ := json.Marshal(map[string]any{"Replace": repl})
	ovPath := filepath.Join(dir, "overlay.json")
	os.WriteFile(ovPath, ob, 0o644)
	cmd := exec.Command("go", "test", "-vet=off", "-count=1", "-timeout", "120s", "-run", "^TestVsymReplay$", "-v", "-overlay", ovPath, spec2pattern(r.spec.Package))
	cmd.Dir = r.modDir
	cmd.Env = append(r.toolEnv(), "VSYM_MODEL="+modelPath)
	out, err := cmd.CombinedOutput()
	return string(out), err
}

func (r *runner) replayFile(path string) int {
	b, err := os.ReadFile(path)
	if err != nil {
		fatal(2, "cannot read %s: %v", path, err)
	}
	var rec struct {
		Harness string            `json:"harness"`
		Label   string            `json:"label"`
		Params  map[string]int    `json:"params"`
		Values  map[string]uint64 `json:"values"`
		Events  []string          `json:"events"`
	}
	if err := json.Unmarshal(b, &rec); err != nil {
		fatal(2, "bad replay file: %v", err)
	}
	for _, src := range r.spec.Overlay {
		sb, _ := os.ReadFile(filepath.Join(r.hdir, src))
		if m := pkgClause.FindSubmatch(sb); m != nil {
			r.pkgName = string(m[1])
		}
		break
	}
	out, _ := r.nativeRun(rec.Harness, rec.Values, rec.Params, rec.Events)
	fmt.Print(out)
	if strings.Contains(out, "VSYM-OUTCOME "+rec.Harness+" ok") {
		return 0
	}
	return 1
}

// machineStats accumulates what the workers of all units did.
type machineStats struct {
	st      smt.Stats
	funcs   map[string]bool
	stubs   map[string]int
	tainted map[string]string
}

func (a *machineStats) add(m *sym.Machine) {
	if a.funcs == nil {
		a.funcs, a.stubs, a.tainted = map[string]bool{}, map[string]int{}, map[string]string{}
	}
	a.st.Add(m.Solver.Stats)
	for f := range m.FuncsEntered {
		a.funcs[f.String()] = true
	}
	for k, v := range m.StubsHit {
		a.stubs[k] += v
	}
	for k, v := range m.Tainted {
		a.tainted[k] = v
	}
}

func (r *runner) writeEvidenceFull(hruns []*harnessRun, exit int, inconc []string, nviol, replayed int) {
	paths, symPaths, decisions, steps := 0, 0, 0, 0
	outcomes := map[string]int{}
	var samples []any
	var harnessNames []string
	bounds := map[string]any{}
	for _, h := range hruns {
		paths += h.paths
		symPaths += h.symPaths
		decisions += h.decisions
		steps += h.steps
		for k, v := range h.outcomes {
			outcomes[k] += v
		}
		samples = append(samples, h.samples...)
		harnessNames = append(harnessNames, h.spec.Func)
		ps := map[string]any{}
		for n, p := range h.spec.Params {
			ps[n] = expand(p, r.tier)
		}
		bounds[h.spec.Func] = map[string]any{"instances": len(h.instances), "params": ps}
		if h.violation != nil && !h.spec.Twin {
			samples = append(samples, map[string]any{"violation": h.violation.Label, "model": h.violation.Model, "instance": h.violation.Params, "detail": h.violation.Detail})
		}
		for id, k := range h.known {
			samples = append(samples, map[string]any{"known_finding": id, "label": k.Label, "model": k.Model, "instance": k.Params})
		}
	}
	st, funcs, stubs, tainted := r.mstats.st, r.mstats.funcs, r.mstats.stubs, r.mstats.tainted
	repoFuncs, depFuncs := 0, 0
	var repoList []string
	for f := range funcs {
		if strings.Contains(f, "KafScale/platform") || strings.Contains(f, "kafscale/") {
			repoFuncs++
			if !strings.Contains(f, "vsym_") && !strings.Contains(f, "Vsym") {
				repoList = append(repoList, f)
			}
		} else {
			depFuncs++
		}
	}
	sort.Strings(repoList)
	if len(repoList) > 60 {
		repoList = append(repoList[:60], fmt.Sprintf("… and %d more", len(repoList)-60))
	}
	if len(samples) == 0 {
		samples = append(samples, map[string]any{"note": "no path completed", "inconclusive": inconc})
	}
	if len(samples) > 12 {
		samples = samples[:12]
	}
	if paths == 0 {
		paths = 0
	}
	cov := map[string]any{
		"states":                        max1(paths),
		"transitions":                   max1(decisions),
		"traces_validated_against_impl": replayed + r.validated,
		"native_replays_of_counterexamples": replayed,
		"native_reruns_of_completed_paths":  r.validated,
		"native_rerun_disagreements":        r.validationNotes,
		"samples":                       samples,
		"evaluations":                   max1(paths),
		"distinct_nontrivial":           symPaths,
		"rule":                          "one evaluation = one feasible execution path of a harness instance (re-executed from the decision vector); non-trivial = the path took at least one branch/concretisation decided by the SMT solver on symbolic data; paths are distinct by construction (distinct decision vectors)",
		"obligations":                   st.Queries,
		"discharged":                    st.Queries - st.Unknown,
		"checker_cmd":                   "z3 -in (4.8.12), fallback cvc5 --solve-bv-as-int=sum",
		"harnesses":                     harnessNames,
		"functions_encoded":             map[string]any{"repo": repoFuncs, "dependencies": depFuncs, "repo_functions": repoList},
		"bounds":                        map[string]any{"per_harness": bounds, "stated": r.spec.Bounds},
		"stubs_hit":                     stubs,
		"outcomes":                      outcomes,
		"interpreted_instructions":      steps,
		"solver":                        map[string]any{"queries": st.Queries, "sat": st.Sat, "unsat": st.Unsat, "unknown": st.Unknown, "fallback_cvc5": st.Fallback, "fallback_decided": st.FallbackDecided, "errors": st.Errors, "seconds": round2(st.Seconds), "max_query_seconds": round2(st.MaxQuerySeconds)},
		"load_seconds":                  round2(r.loadSecs),
		"inconclusive":                  inconc,
		"exit":                          exit,
		"exhaustive":                    exit == 0,
		"packages_not_initialised":      len(tainted),
	}
	ev := map[string]any{
		"property_id": r.spec.Property,
		"tier":        r.tier,
		"seed":        r.seed,
		"level":       "model_checking",
		"coverage":    cov,
		"assumptions": r.spec.Assumes,
		"wall_s":      round2(time.Since(r.t0).Seconds()),
		"violations":  nviol,
	}
	b, _ := json.MarshalIndent(ev, "", " ")
	os.MkdirAll(filepath.Join(verifDir, "evidence"), 0o755)
	os.WriteFile(filepath.Join(verifDir, "evidence", r.spec.Property+".json"), b, 0o644)
}

func checkerCmd(solver string) string {
	if solver == "cvc5int" {
		return "cvc5 1.0 --incremental --solve-bv-as-int=sum (bit-vector semantics kept mod 2^k)"
	}
	return "z3 -in (4.8.12), fallback cvc5 --solve-bv-as-int=sum"
}

func max1(x int) int {
	if x < 1 {
		return 1
	}
	return x
}

func round2(f float64) float64 { return float64(int(f*100+0.5)) / 100 }
