package main

import "os"

func dirExists(p string) bool {
	st, err := os.Stat(p)
	return err == nil && st.IsDir()
}
