// Package term implements bit-vector / boolean terms with constant folding and
// SMT-LIB2 printing. Width 0 means Bool; 1..64 are bit-vectors.
package term

import (
	"fmt"
	"math/bits"
	"strings"
)

type Op uint8

const (
	OConst Op = iota
	OVar
	OAdd
	OSub
	OMul
	OUDiv
	OSDiv
	OURem
	OSRem
	OAnd
	OOr
	OXor
	OShl
	OLShr
	OAShr
	ONot // bvnot / boolean not
	ONeg
	OZExt
	OSExt
	OExtract // bits [Hi:Lo]
	OConcat
	OIte
	OEq
	OUlt
	OUle
	OSlt
	OSle
	OBAnd
	OBOr
	OUF // uninterpreted function application: Name, Args
)

var opName = map[Op]string{
	OAdd: "bvadd", OSub: "bvsub", OMul: "bvmul", OUDiv: "bvudiv", OSDiv: "bvsdiv", OURem: "bvurem", OSRem: "bvsrem",
	OAnd: "bvand", OOr: "bvor", OXor: "bvxor", OShl: "bvshl", OLShr: "bvlshr", OAShr: "bvashr",
	ONeg: "bvneg", OConcat: "concat", OIte: "ite", OEq: "=", OUlt: "bvult", OUle: "bvule", OSlt: "bvslt", OSle: "bvsle",
	OBAnd: "and", OBOr: "or",
}

type Term struct {
	Op   Op
	W    uint8 // 0 = bool
	C    uint64
	A, B *Term
	X    *Term // third arg (ite else)
	Hi   uint8 // extract
	Lo   uint8
	Name string
	Args []*Term // OUF
	// emission bookkeeping (owned by the smt session)
	EmitGen int
	EmitID  int
	size    int32
	ufState uint8 // 0 unknown, 1 no UF below, 2 contains a UF
	EvalGen int
	EvalVal uint64
}

// ContainsUF reports whether an uninterpreted function occurs in t.
func (t *Term) ContainsUF() bool {
	if t.ufState != 0 {
		return t.ufState == 2
	}
	r := t.Op == OUF
	if !r {
		t.Children(func(c *Term) {
			if !r && c.Op != OConst && c.ContainsUF() {
				r = true
			}
		})
	}
	if t.Op != OConst { // shared constants are never written to
		if r {
			t.ufState = 2
		} else {
			t.ufState = 1
		}
	}
	return r
}

// EvalGen evaluates t under env, caching results in the terms under generation gen
// (callers bump gen whenever env changes). Terms containing UFs must not be passed.
func EvalCached(t *Term, gen int, env map[string]uint64) uint64 {
	if t.Op == OConst {
		return t.C
	}
	if t.EvalGen == gen {
		return t.EvalVal
	}
	ev := func(x *Term) uint64 { return EvalCached(x, gen, env) }
	var r uint64
	switch t.Op {
	case OVar:
		r = env[t.Name] & mask(t.W)
		if t.W == 0 {
			r = env[t.Name] & 1
		}
	case OUF:
		panic("EvalCached: UF")
	case ONot:
		if t.W == 0 {
			r = ev(t.A) ^ 1
		} else {
			r = ^ev(t.A) & mask(t.W)
		}
	case ONeg:
		r = -ev(t.A) & mask(t.W)
	case OZExt:
		r = ev(t.A)
	case OSExt:
		r = uint64(sext(ev(t.A), t.A.W)) & mask(t.W)
	case OExtract:
		r = (ev(t.A) >> t.Lo) & mask(t.W)
	case OConcat:
		r = ev(t.A)<<t.B.W | ev(t.B)
	case OIte:
		if ev(t.A) == 1 {
			r = ev(t.B)
		} else {
			r = ev(t.X)
		}
	case OEq:
		r = b2u(ev(t.A) == ev(t.B))
	case OUlt:
		r = b2u(ev(t.A) < ev(t.B))
	case OUle:
		r = b2u(ev(t.A) <= ev(t.B))
	case OSlt:
		r = b2u(sext(ev(t.A), t.A.W) < sext(ev(t.B), t.A.W))
	case OSle:
		r = b2u(sext(ev(t.A), t.A.W) <= sext(ev(t.B), t.A.W))
	case OBAnd:
		r = ev(t.A) & ev(t.B)
	case OBOr:
		r = ev(t.A) | ev(t.B)
	default:
		r = Bin(t.Op, Const(t.W, ev(t.A)), Const(t.W, ev(t.B))).C
	}
	t.EvalGen, t.EvalVal = gen, r
	return r
}

func mask(w uint8) uint64 {
	if w >= 64 {
		return ^uint64(0)
	}
	return (uint64(1) << w) - 1
}

var smallConsts [65][]*Term

func init() {
	for w := 1; w <= 64; w++ {
		n := 257
		if w < 9 {
			n = 1 << w
		}
		smallConsts[w] = make([]*Term, n)
		for i := 0; i < n; i++ {
			smallConsts[w][i] = &Term{Op: OConst, W: uint8(w), C: uint64(i)}
		}
	}
}

var True = &Term{Op: OConst, W: 0, C: 1}
var False = &Term{Op: OConst, W: 0, C: 0}

func Bool(b bool) *Term {
	if b {
		return True
	}
	return False
}

func Const(w uint8, v uint64) *Term {
	if w == 0 {
		return Bool(v&1 == 1)
	}
	v &= mask(w)
	if v < uint64(len(smallConsts[w])) {
		return smallConsts[w][v]
	}
	return &Term{Op: OConst, W: w, C: v}
}

func Var(w uint8, name string) *Term { return &Term{Op: OVar, W: w, Name: name} }

func (t *Term) IsConst() bool { return t.Op == OConst }
func (t *Term) IsTrue() bool  { return t.Op == OConst && t.W == 0 && t.C == 1 }
func (t *Term) IsFalse() bool { return t.Op == OConst && t.W == 0 && t.C == 0 }

// Signed returns the constant's value sign-extended from its width.
func (t *Term) Signed() int64 { return sext(t.C, t.W) }

func sext(v uint64, w uint8) int64 {
	if w >= 64 {
		return int64(v)
	}
	sh := 64 - uint(w)
	return int64(v<<sh) >> sh
}

func mk2(op Op, w uint8, a, b *Term) *Term { return &Term{Op: op, W: w, A: a, B: b} }

func Bin(op Op, a, b *Term) *Term {
	if a.W != b.W {
		panic(fmt.Sprintf("term.Bin %v: width mismatch %d vs %d", op, a.W, b.W))
	}
	w := a.W
	if a.IsConst() && b.IsConst() {
		x, y := a.C, b.C
		switch op {
		case OAdd:
			return Const(w, x+y)
		case OSub:
			return Const(w, x-y)
		case OMul:
			return Const(w, x*y)
		case OUDiv:
			if y == 0 {
				return Const(w, mask(w))
			}
			return Const(w, x/y)
		case OURem:
			if y == 0 {
				return a
			}
			return Const(w, x%y)
		case OSDiv:
			sx, sy := sext(x, w), sext(y, w)
			if sy == 0 {
				if sx < 0 {
					return Const(w, 1)
				}
				return Const(w, mask(w))
			}
			if sy == -1 {
				return Const(w, uint64(-sx))
			}
			return Const(w, uint64(sx/sy))
		case OSRem:
			sx, sy := sext(x, w), sext(y, w)
			if sy == 0 {
				return a
			}
			if sy == -1 {
				return Const(w, 0)
			}
			return Const(w, uint64(sx%sy))
		case OAnd:
			return Const(w, x&y)
		case OOr:
			return Const(w, x|y)
		case OXor:
			return Const(w, x^y)
		case OShl:
			if y >= uint64(w) {
				return Const(w, 0)
			}
			return Const(w, x<<y)
		case OLShr:
			if y >= uint64(w) {
				return Const(w, 0)
			}
			return Const(w, x>>y)
		case OAShr:
			sx := sext(x, w)
			if y >= uint64(w) {
				y = uint64(w) - 1
			}
			return Const(w, uint64(sx>>y))
		}
	}
	// local rewrites
	switch op {
	case OAdd:
		if a.IsConst() && a.C == 0 {
			return b
		}
		if b.IsConst() && b.C == 0 {
			return a
		}
		// (x + c1) + c2
		if b.IsConst() && a.Op == OAdd && a.B.IsConst() {
			return Bin(OAdd, a.A, Const(w, a.B.C+b.C))
		}
	case OSub:
		if b.IsConst() && b.C == 0 {
			return a
		}
		if a == b {
			return Const(w, 0)
		}
		if b.IsConst() {
			return Bin(OAdd, a, Const(w, -b.C))
		}
	case OMul:
		if a.IsConst() {
			a, b = b, a
		}
		if b.IsConst() {
			if b.C == 0 {
				return b
			}
			if b.C == 1 {
				return a
			}
			if bits.OnesCount64(b.C) == 1 {
				return Bin(OShl, a, Const(w, uint64(bits.TrailingZeros64(b.C))))
			}
		}
	case OAnd:
		if a.IsConst() {
			a, b = b, a
		}
		if b.IsConst() {
			if b.C == 0 {
				return b
			}
			if b.C == mask(w) {
				return a
			}
			// (zext x) & m where m covers all of x's bits
			if a.Op == OZExt && b.C&mask(a.A.W) == mask(a.A.W) {
				return a
			}
		}
		if a == b {
			return a
		}
	case OOr:
		if a.IsConst() {
			a, b = b, a
		}
		if b.IsConst() {
			if b.C == 0 {
				return a
			}
			if b.C == mask(w) {
				return b
			}
		}
		if a == b {
			return a
		}
	case OXor:
		if a.IsConst() {
			a, b = b, a
		}
		if b.IsConst() && b.C == 0 {
			return a
		}
		if a == b {
			return Const(w, 0)
		}
	case OShl, OLShr, OAShr:
		if b.IsConst() && b.C == 0 {
			return a
		}
		if b.IsConst() && b.C >= uint64(w) && op != OAShr {
			return Const(w, 0)
		}
		if a.IsConst() && a.C == 0 {
			return a
		}
		// (zext8 x) >> k with k>=8 → 0
		if op == OLShr && b.IsConst() && a.Op == OZExt && b.C >= uint64(a.A.W) {
			return Const(w, 0)
		}
	case OUDiv:
		if b.IsConst() && b.C == 1 {
			return a
		}
		if b.IsConst() && b.C != 0 && bits.OnesCount64(b.C) == 1 {
			return Bin(OLShr, a, Const(w, uint64(bits.TrailingZeros64(b.C))))
		}
	case OURem:
		if b.IsConst() && b.C != 0 && bits.OnesCount64(b.C) == 1 {
			return Bin(OAnd, a, Const(w, b.C-1))
		}
	case OSDiv:
		if b.IsConst() && b.C == 1 {
			return a
		}
	}
	t := mk2(op, w, a, b)
	t.size = a.size + b.size + 1
	return t
}

func Not(a *Term) *Term {
	if a.IsConst() {
		if a.W == 0 {
			return Bool(a.C == 0)
		}
		return Const(a.W, ^a.C)
	}
	if a.Op == ONot {
		return a.A
	}
	return &Term{Op: ONot, W: a.W, A: a, size: a.size + 1}
}

func Neg(a *Term) *Term {
	if a.IsConst() {
		return Const(a.W, -a.C)
	}
	return &Term{Op: ONeg, W: a.W, A: a, size: a.size + 1}
}

func ZExt(a *Term, w uint8) *Term {
	if a.W == w {
		return a
	}
	if a.W > w {
		return Extract(a, w-1, 0)
	}
	if a.IsConst() {
		return Const(w, a.C)
	}
	if a.Op == OZExt {
		return ZExt(a.A, w)
	}
	return &Term{Op: OZExt, W: w, A: a, size: a.size + 1}
}

func SExt(a *Term, w uint8) *Term {
	if a.W == w {
		return a
	}
	if a.W > w {
		return Extract(a, w-1, 0)
	}
	if a.IsConst() {
		return Const(w, uint64(sext(a.C, a.W)))
	}
	if a.Op == OZExt { // sign bit is zero
		return ZExt(a.A, w)
	}
	return &Term{Op: OSExt, W: w, A: a, size: a.size + 1}
}

func Extract(a *Term, hi, lo uint8) *Term {
	w := hi - lo + 1
	if lo == 0 && w == a.W {
		return a
	}
	if a.IsConst() {
		return Const(w, a.C>>lo)
	}
	switch a.Op {
	case OZExt, OSExt:
		if hi < a.A.W {
			return Extract(a.A, hi, lo)
		}
		if a.Op == OZExt && lo >= a.A.W {
			return Const(w, 0)
		}
		if lo == 0 {
			// truncation of an extension that is still wider than the source
			if a.Op == OZExt {
				return ZExt(a.A, w)
			}
			return SExt(a.A, w)
		}
	case OExtract:
		return Extract(a.A, a.Lo+hi, a.Lo+lo)
	case OConcat:
		// concat(A,B): B is low part
		if hi < a.B.W {
			return Extract(a.B, hi, lo)
		}
		if lo >= a.B.W {
			return Extract(a.A, hi-a.B.W, lo-a.B.W)
		}
	case OOr, OAnd, OXor:
		// push extraction through bitwise ops when it simplifies (byte extraction from assembled words)
		if lo == 0 || true {
			ea, eb := Extract(a.A, hi, lo), Extract(a.B, hi, lo)
			if ea.IsConst() || eb.IsConst() || ea.size+eb.size < a.size {
				return Bin(a.Op, ea, eb)
			}
		}
	case OShl:
		if a.B.IsConst() {
			k := uint8(a.B.C)
			if uint64(k) == a.B.C && k < a.W {
				if hi < k {
					return Const(w, 0)
				}
				if lo >= k {
					return Extract(a.A, hi-k, lo-k)
				}
			}
		}
	case OLShr:
		if a.B.IsConst() {
			k := uint8(a.B.C)
			if uint64(k) == a.B.C && k < a.W {
				if uint16(hi)+uint16(k) < uint16(a.W) {
					return Extract(a.A, hi+k, lo+k)
				}
				if uint16(lo)+uint16(k) >= uint16(a.W) {
					return Const(w, 0)
				}
			}
		}
	}
	return &Term{Op: OExtract, W: w, A: a, Hi: hi, Lo: lo, size: a.size + 1}
}

func Concat(hi, lo *Term) *Term {
	w := hi.W + lo.W
	if hi.IsConst() && lo.IsConst() {
		return Const(w, hi.C<<lo.W|lo.C)
	}
	return &Term{Op: OConcat, W: w, A: hi, B: lo, size: hi.size + lo.size + 1}
}

func Ite(c, a, b *Term) *Term {
	if c.IsConst() {
		if c.C == 1 {
			return a
		}
		return b
	}
	if a == b {
		return a
	}
	if a.IsConst() && b.IsConst() && a.C == b.C {
		return a
	}
	if a.W == 0 && a.IsConst() && b.IsConst() {
		if a.C == 1 { // ite(c, true, false)
			return c
		}
		return Not(c)
	}
	return &Term{Op: OIte, W: a.W, A: c, B: a, X: b, size: c.size + a.size + b.size + 1}
}

func Eq(a, b *Term) *Term {
	if a.W != b.W {
		panic(fmt.Sprintf("term.Eq width mismatch %d vs %d", a.W, b.W))
	}
	if a == b {
		return True
	}
	if a.IsConst() && b.IsConst() {
		return Bool(a.C == b.C)
	}
	if a.W == 0 {
		if a.IsConst() {
			a, b = b, a
		}
		if b.IsConst() {
			if b.C == 1 {
				return a
			}
			return Not(a)
		}
	}
	if a.IsConst() {
		a, b = b, a
	}
	// zext(x) == c  →  x == c' or false
	if b.IsConst() && (a.Op == OZExt) {
		if b.C > mask(a.A.W) {
			return False
		}
		return Eq(a.A, Const(a.A.W, b.C))
	}
	// ite(c, k1, k2) == k  with constants
	if b.IsConst() && a.Op == OIte && a.B.IsConst() && a.X.IsConst() {
		t1, t2 := a.B.C == b.C, a.X.C == b.C
		switch {
		case t1 && t2:
			return True
		case t1:
			return a.A
		case t2:
			return Not(a.A)
		default:
			return False
		}
	}
	return &Term{Op: OEq, W: 0, A: a, B: b, size: a.size + b.size + 1}
}

func Cmp(op Op, a, b *Term) *Term {
	if a.W != b.W {
		panic(fmt.Sprintf("term.Cmp width mismatch %d vs %d", a.W, b.W))
	}
	if a.IsConst() && b.IsConst() {
		switch op {
		case OUlt:
			return Bool(a.C < b.C)
		case OUle:
			return Bool(a.C <= b.C)
		case OSlt:
			return Bool(a.Signed() < b.Signed())
		case OSle:
			return Bool(a.Signed() <= b.Signed())
		}
	}
	if a == b {
		return Bool(op == OUle || op == OSle)
	}
	// comparisons of zero-extended small values against constants
	if a.Op == OZExt && b.IsConst() {
		m := mask(a.A.W)
		sb := b.Signed()
		switch op {
		case OUlt:
			if b.C > m {
				return True
			}
		case OUle:
			if b.C >= m {
				return True
			}
		case OSlt:
			if sb > int64(m) {
				return True
			}
			if sb <= 0 {
				return False
			}
		case OSle:
			if sb >= int64(m) {
				return True
			}
			if sb < 0 {
				return False
			}
		}
	}
	if b.Op == OZExt && a.IsConst() {
		m := mask(b.A.W)
		sa := a.Signed()
		switch op {
		case OUlt:
			if a.C >= m {
				return False
			}
		case OUle:
			if a.C > m {
				return False
			}
			if a.C == 0 {
				return True
			}
		case OSlt:
			if sa < 0 {
				return True
			}
			if sa >= int64(m) {
				return False
			}
		case OSle:
			if sa <= 0 {
				return True
			}
			if sa > int64(m) {
				return False
			}
		}
	}
	return &Term{Op: op, W: 0, A: a, B: b, size: a.size + b.size + 1}
}

func And(a, b *Term) *Term {
	if a.IsConst() {
		if a.C == 1 {
			return b
		}
		return False
	}
	if b.IsConst() {
		if b.C == 1 {
			return a
		}
		return False
	}
	if a == b {
		return a
	}
	return &Term{Op: OBAnd, W: 0, A: a, B: b, size: a.size + b.size + 1}
}

func Or(a, b *Term) *Term {
	if a.IsConst() {
		if a.C == 1 {
			return True
		}
		return b
	}
	if b.IsConst() {
		if b.C == 1 {
			return True
		}
		return a
	}
	if a == b {
		return a
	}
	return &Term{Op: OBOr, W: 0, A: a, B: b, size: a.size + b.size + 1}
}

// UF builds an application of an uninterpreted function with result width w.
func UF(name string, w uint8, args []*Term) *Term {
	return &Term{Op: OUF, W: w, Name: name, Args: args}
}

func SortOf(w uint8) string {
	if w == 0 {
		return "Bool"
	}
	return fmt.Sprintf("(_ BitVec %d)", w)
}

func constSMT(t *Term) string {
	if t.W == 0 {
		if t.C == 1 {
			return "true"
		}
		return "false"
	}
	return fmt.Sprintf("(_ bv%d %d)", t.C, t.W)
}

func QuoteName(n string) string {
	return "|" + strings.NewReplacer("|", "!", "\\", "!").Replace(n) + "|"
}

// Shallow returns the SMT text of t given a function naming its children.
func (t *Term) Shallow(ref func(*Term) string) string {
	switch t.Op {
	case OConst:
		return constSMT(t)
	case OVar:
		return QuoteName(t.Name)
	case ONot:
		if t.W == 0 {
			return "(not " + ref(t.A) + ")"
		}
		return "(bvnot " + ref(t.A) + ")"
	case ONeg:
		return "(bvneg " + ref(t.A) + ")"
	case OZExt:
		return fmt.Sprintf("((_ zero_extend %d) %s)", t.W-t.A.W, ref(t.A))
	case OSExt:
		return fmt.Sprintf("((_ sign_extend %d) %s)", t.W-t.A.W, ref(t.A))
	case OExtract:
		return fmt.Sprintf("((_ extract %d %d) %s)", t.Hi, t.Lo, ref(t.A))
	case OIte:
		return "(ite " + ref(t.A) + " " + ref(t.B) + " " + ref(t.X) + ")"
	case OUF:
		if len(t.Args) == 0 {
			return QuoteName(t.Name)
		}
		var sb strings.Builder
		sb.WriteString("(" + QuoteName(t.Name))
		for _, a := range t.Args {
			sb.WriteString(" " + ref(a))
		}
		sb.WriteString(")")
		return sb.String()
	default:
		return "(" + opName[t.Op] + " " + ref(t.A) + " " + ref(t.B) + ")"
	}
}

// Children calls f on every direct sub-term.
func (t *Term) Children(f func(*Term)) {
	if t.A != nil {
		f(t.A)
	}
	if t.B != nil {
		f(t.B)
	}
	if t.X != nil {
		f(t.X)
	}
	for _, a := range t.Args {
		f(a)
	}
}

// String renders a (possibly large) term inline; for debugging only.
func (t *Term) String() string {
	if t == nil {
		return "<nil>"
	}
	var ref func(*Term) string
	depth := 0
	ref = func(x *Term) string {
		depth++
		defer func() { depth-- }()
		if depth > 6 {
			return "…"
		}
		return x.Shallow(ref)
	}
	return t.Shallow(ref)
}

// Eval evaluates t under an assignment of variables (by name). Missing variables are 0.
func Eval(t *Term, env map[string]uint64, uf func(name string, args []uint64) uint64) uint64 {
	memo := map[*Term]uint64{}
	var ev func(*Term) uint64
	ev = func(t *Term) uint64 {
		if t.Op == OConst {
			return t.C
		}
		if v, ok := memo[t]; ok {
			return v
		}
		var r uint64
		switch t.Op {
		case OVar:
			r = env[t.Name] & mask(t.W)
			if t.W == 0 {
				r = env[t.Name] & 1
			}
		case OUF:
			args := make([]uint64, len(t.Args))
			for i, a := range t.Args {
				args[i] = ev(a)
			}
			if uf != nil {
				r = uf(t.Name, args)
			}
		case ONot:
			if t.W == 0 {
				r = ev(t.A) ^ 1
			} else {
				r = ^ev(t.A) & mask(t.W)
			}
		case ONeg:
			r = -ev(t.A) & mask(t.W)
		case OZExt:
			r = ev(t.A)
		case OSExt:
			r = uint64(sext(ev(t.A), t.A.W)) & mask(t.W)
		case OExtract:
			r = (ev(t.A) >> t.Lo) & mask(t.W)
		case OConcat:
			r = ev(t.A)<<t.B.W | ev(t.B)
		case OIte:
			if ev(t.A) == 1 {
				r = ev(t.B)
			} else {
				r = ev(t.X)
			}
		case OEq:
			r = b2u(ev(t.A) == ev(t.B))
		case OUlt:
			r = b2u(ev(t.A) < ev(t.B))
		case OUle:
			r = b2u(ev(t.A) <= ev(t.B))
		case OSlt:
			r = b2u(sext(ev(t.A), t.A.W) < sext(ev(t.B), t.A.W))
		case OSle:
			r = b2u(sext(ev(t.A), t.A.W) <= sext(ev(t.B), t.A.W))
		case OBAnd:
			r = ev(t.A) & ev(t.B)
		case OBOr:
			r = ev(t.A) | ev(t.B)
		default:
			r = Bin(t.Op, Const(t.W, ev(t.A)), Const(t.W, ev(t.B))).C
		}
		memo[t] = r
		return r
	}
	return ev(t)
}

func b2u(b bool) uint64 {
	if b {
		return 1
	}
	return 0
}
