package sym

import (
	"fmt"
	"go/constant"
	"go/token"
	"go/types"
	"math"
	"unicode/utf8"

	"golang.org/x/tools/go/ssa"
	"gosym/smt"
	"gosym/term"
)

func constantBool(c *ssa.Const) bool     { return constant.BoolVal(c.Value) }
func constantString(c *ssa.Const) string { return constant.StringVal(c.Value) }

func (fr *frame) unop(instr *ssa.UnOp, x Value) Value {
	x = fr.m.forceFloat(x)
	m := fr.m
	if p, bad := x.(Poison); bad {
		if instr.Op == token.MUL {
			m.unsupported("load through poison: %s", p.Why)
		}
		return p
	}
	switch instr.Op {
	case token.MUL: // load
		if sp, isSym := x.(*SymElemPtr); isSym {
			return sp.load()
		}
		p := fr.ptr(x)
		return copyVal(*p)
	case token.ARROW:
		v, ok := m.chanRecv(fr, x.(*Chan))
		if instr.CommaOk {
			return Tuple{v, term.Bool(ok)}
		}
		return v
	case token.SUB:
		switch x := x.(type) {
		case *term.Term:
			return term.Neg(x)
		case float64:
			return -x
		}
	case token.NOT:
		return term.Not(x.(*term.Term))
	case token.XOR:
		return term.Not(x.(*term.Term))
	}
	panic(fmt.Sprintf("unop %v on %T", instr.Op, x))
}

func (fr *frame) binop(op token.Token, tx, ty types.Type, x, y Value) Value {
	x, y = fr.m.forceFloat(x), fr.m.forceFloat(y)
	m := fr.m
	if p, bad := x.(Poison); bad {
		return p
	}
	if p, bad := y.(Poison); bad {
		return p
	}
	switch op {
	case token.EQL:
		return m.equals(tx, x, y)
	case token.NEQ:
		return term.Not(m.equals(tx, x, y))
	}
	switch x := x.(type) {
	case *term.Term:
		yt := y.(*term.Term)
		w, signed, _ := intInfo(tx)
		_ = w
		switch op {
		case token.ADD:
			return term.Bin(term.OAdd, x, yt)
		case token.SUB:
			return term.Bin(term.OSub, x, yt)
		case token.MUL:
			return term.Bin(term.OMul, x, yt)
		case token.QUO, token.REM:
			if m.Decide(term.Eq(yt, term.Const(yt.W, 0))) {
				fr.tpanic("div-zero", "integer divide by zero")
			}
			if signed {
				if op == token.QUO {
					return term.Bin(term.OSDiv, x, yt)
				}
				return term.Bin(term.OSRem, x, yt)
			}
			if op == token.QUO {
				return term.Bin(term.OUDiv, x, yt)
			}
			return term.Bin(term.OURem, x, yt)
		case token.AND:
			if x.W == 0 {
				return term.And(x, yt)
			}
			return term.Bin(term.OAnd, x, yt)
		case token.OR:
			if x.W == 0 {
				return term.Or(x, yt)
			}
			return term.Bin(term.OOr, x, yt)
		case token.XOR:
			if x.W == 0 {
				return term.Not(term.Eq(x, yt))
			}
			return term.Bin(term.OXor, x, yt)
		case token.AND_NOT:
			return term.Bin(term.OAnd, x, term.Not(yt))
		case token.SHL, token.SHR:
			_, ysigned, _ := intInfo(ty)
			if ysigned {
				neg := term.Cmp(term.OSlt, yt, term.Const(yt.W, 0))
				if m.Decide(neg) {
					fr.tpanic("shift", "negative shift amount")
				}
			}
			// normalise the count to x's width, saturating
			var cnt *term.Term
			if yt.W > x.W {
				big := term.Cmp(term.OUle, term.Const(yt.W, uint64(x.W)), yt)
				cnt = term.Ite(big, term.Const(x.W, uint64(x.W)), term.Extract(yt, x.W-1, 0))
			} else {
				cnt = term.ZExt(yt, x.W)
			}
			if op == token.SHL {
				return term.Bin(term.OShl, x, cnt)
			}
			if signed {
				return term.Bin(term.OAShr, x, cnt)
			}
			return term.Bin(term.OLShr, x, cnt)
		case token.LSS, token.LEQ, token.GTR, token.GEQ:
			a, b := x, yt
			if op == token.GTR || op == token.GEQ {
				a, b = b, a
			}
			strict := op == token.LSS || op == token.GTR
			switch {
			case signed && strict:
				return term.Cmp(term.OSlt, a, b)
			case signed:
				return term.Cmp(term.OSle, a, b)
			case strict:
				return term.Cmp(term.OUlt, a, b)
			default:
				return term.Cmp(term.OUle, a, b)
			}
		}
	case float64:
		yf := y.(float64)
		f32 := false
		if b, ok := tx.Underlying().(*types.Basic); ok && b.Kind() == types.Float32 {
			f32 = true
		}
		r := func(v float64) Value {
			if f32 {
				return float64(float32(v))
			}
			return v
		}
		switch op {
		case token.ADD:
			return r(x + yf)
		case token.SUB:
			return r(x - yf)
		case token.MUL:
			return r(x * yf)
		case token.QUO:
			return r(x / yf)
		case token.LSS:
			return term.Bool(x < yf)
		case token.LEQ:
			return term.Bool(x <= yf)
		case token.GTR:
			return term.Bool(x > yf)
		case token.GEQ:
			return term.Bool(x >= yf)
		}
	case string, SymStr:
		switch op {
		case token.ADD:
			if xs, ok := x.(string); ok {
				if ys, ok := y.(string); ok {
					return xs + ys
				}
			}
			return mkStr(append(append([]*term.Term(nil), strBytes(x)...), strBytes(y)...))
		case token.LSS:
			return strLess(x, y, false)
		case token.LEQ:
			return strLess(x, y, true)
		case token.GTR:
			return strLess(y, x, false)
		case token.GEQ:
			return strLess(y, x, true)
		}
	}
	panic(fmt.Sprintf("binop %v on %T, %T", op, x, y))
}

// strLess builds the lexicographic comparison x < y (or <= when orEq).
func strLess(x, y Value, orEq bool) *term.Term {
	if xs, ok := x.(string); ok {
		if ys, ok := y.(string); ok {
			if orEq {
				return term.Bool(xs <= ys)
			}
			return term.Bool(xs < ys)
		}
	}
	a, b := strBytes(x), strBytes(y)
	n := len(a)
	if len(b) < n {
		n = len(b)
	}
	// result when all first n bytes are equal
	var res *term.Term
	if orEq {
		res = term.Bool(len(a) <= len(b))
	} else {
		res = term.Bool(len(a) < len(b))
	}
	for i := n - 1; i >= 0; i-- {
		lt := term.Cmp(term.OUlt, a[i], b[i])
		eq := term.Eq(a[i], b[i])
		res = term.Or(lt, term.And(eq, res))
	}
	return res
}

func strEq(x, y Value) *term.Term {
	if xs, ok := x.(string); ok {
		if ys, ok := y.(string); ok {
			return term.Bool(xs == ys)
		}
	}
	if strLen(x) != strLen(y) {
		return term.False
	}
	a, b := strBytes(x), strBytes(y)
	res := term.True
	for i := range a {
		res = term.And(res, term.Eq(a[i], b[i]))
		if res.IsFalse() {
			return res
		}
	}
	return res
}

// equals builds the term for x == y at static type t.
func (m *Machine) equals(t types.Type, x, y Value) *term.Term {
	x, y = m.forceFloat(x), m.forceFloat(y)
	switch x := x.(type) {
	case *term.Term:
		return term.Eq(x, y.(*term.Term))
	case float64:
		return term.Bool(x == y.(float64))
	case string, SymStr:
		return strEq(x, y)
	case *Value:
		yp, _ := y.(*Value)
		return term.Bool(x == yp)
	case *Chan:
		yc, _ := y.(*Chan)
		return term.Bool(x == yc)
	case *Map:
		ym, _ := y.(*Map)
		return term.Bool(x == ym)
	case []Value:
		ys, _ := y.([]Value)
		return term.Bool(x == nil && ys == nil)
	case *Closure:
		yc, ok := y.(*Closure)
		return term.Bool(ok && x == yc)
	case *ssa.Function:
		switch y := y.(type) {
		case *ssa.Function:
			return term.Bool(x == y)
		case *Closure:
			return term.Bool(x == nil && y == nil)
		}
		return term.False
	case Struct:
		ys := y.(Struct)
		res := term.True
		var st *types.Struct
		if t != nil {
			st, _ = t.Underlying().(*types.Struct)
		}
		for i := range x {
			var ft types.Type
			if st != nil {
				if st.Field(i).Name() == "_" {
					continue
				}
				ft = st.Field(i).Type()
			}
			res = term.And(res, m.equals(ft, x[i], ys[i]))
		}
		return res
	case Array:
		ya := y.(Array)
		res := term.True
		var et types.Type
		if t != nil {
			if at, ok := t.Underlying().(*types.Array); ok {
				et = at.Elem()
			}
		}
		for i := range x {
			res = term.And(res, m.equals(et, x[i], ya[i]))
		}
		return res
	case Iface:
		yi, ok := y.(Iface)
		if !ok {
			return term.Bool(x.T == nil && isNilValue(y))
		}
		if x.T == nil || yi.T == nil {
			return term.Bool(x.T == nil && yi.T == nil)
		}
		if !types.Identical(x.T, yi.T) {
			return term.False
		}
		if !types.Comparable(x.T) {
			panic(targetPanic{v: Iface{T: types.Typ[types.String], V: "runtime error: comparing uncomparable type " + typeStr(x.T)}, kind: "uncomparable"})
		}
		return m.equals(x.T, x.V, yi.V)
	case nil:
		return term.Bool(isNilValue(y))
	case *HostFunc:
		return term.Bool(false)
	case Opaque:
		yo, ok := y.(Opaque)
		return term.Bool(ok && x.V == yo.V)
	}
	panic(fmt.Sprintf("equals: unexpected %T vs %T", x, y))
}

func (fr *frame) conv(tdst, tsrc types.Type, x Value) Value {
	x = fr.m.forceFloat(x)
	m := fr.m
	if p, bad := x.(Poison); bad {
		return p
	}
	ud, us := tdst.Underlying(), tsrc.Underlying()
	// pointer / unsafe conversions
	if _, ok := ud.(*types.Pointer); ok {
		if b, ok := us.(*types.Basic); ok && b.Kind() == types.UnsafePointer {
			return x
		}
		return x
	}
	if b, ok := ud.(*types.Basic); ok && b.Kind() == types.UnsafePointer {
		if _, isPtr := us.(*types.Pointer); isPtr {
			return x
		}
		if m.inInit {
			return Poison{"unsafe.Pointer conversion"}
		}
		m.unsupported("conversion to unsafe.Pointer from %v", tsrc)
	}
	switch x := x.(type) {
	case *term.Term:
		if dw, _, ok := intInfo(tdst); ok {
			_, ssigned, _ := intInfo(tsrc)
			if dw == 0 {
				return x
			}
			if dw <= x.W {
				return term.Extract(x, dw-1, 0)
			}
			if ssigned {
				return term.SExt(x, dw)
			}
			return term.ZExt(x, dw)
		}
		if isFloat(tdst) {
			_, ssigned, _ := intInfo(tsrc)
			if !x.IsConst() {
				// most converted integers only feed metrics and logs: keep the conversion lazy and
				// concretise when (if ever) the float is computed with
				return LazyFloat{T: fr.toInt64(x, tsrc), Signed: ssigned, F32: tdst.Underlying().(*types.Basic).Kind() == types.Float32}
			}
			v := m.Concretize(fr.toInt64(x, tsrc), "int→float")
			var f float64
			if ssigned {
				f = float64(v)
			} else {
				f = float64(uint64(v))
			}
			if tdst.Underlying().(*types.Basic).Kind() == types.Float32 {
				f = float64(float32(f))
			}
			return f
		}
		if isString(tdst) { // string(rune)
			_, ssigned, _ := intInfo(tsrc)
			_ = ssigned
			v := m.Concretize(fr.toInt64(x, tsrc), "string(rune)")
			return string(rune(v))
		}
	case float64:
		if dw, dsigned, ok := intInfo(tdst); ok {
			if dsigned {
				return term.Const(dw, uint64(int64(x)))
			}
			if x < 0 {
				return term.Const(dw, uint64(int64(x)))
			}
			return term.Const(dw, uint64(x))
		}
		if isFloat(tdst) {
			if tdst.Underlying().(*types.Basic).Kind() == types.Float32 {
				return float64(float32(x))
			}
			return x
		}
	case string, SymStr:
		if isString(tdst) {
			return x
		}
		if sl, ok := ud.(*types.Slice); ok {
			eb, _ := sl.Elem().Underlying().(*types.Basic)
			if eb != nil && eb.Kind() == types.Uint8 {
				bs := strBytes(x)
				out := make([]Value, len(bs))
				for i, b := range bs {
					out[i] = b
				}
				return out
			}
			if eb != nil && (eb.Kind() == types.Int32) {
				s, ok := x.(string)
				if !ok {
					m.unsupported("[]rune of symbolic string")
				}
				var out []Value
				for _, r := range s {
					out = append(out, term.Const(32, uint64(uint32(r))))
				}
				if out == nil {
					out = []Value{}
				}
				return out
			}
		}
	case []Value:
		if isString(tdst) {
			sl := us.(*types.Slice)
			eb := sl.Elem().Underlying().(*types.Basic)
			if eb.Kind() == types.Uint8 {
				bs := make([]*term.Term, len(x))
				for i, b := range x {
					bs[i] = b.(*term.Term)
				}
				return mkStr(bs)
			}
			// []rune → string
			var rs []rune
			for _, r := range x {
				rt := r.(*term.Term)
				if !rt.IsConst() {
					m.unsupported("string of symbolic []rune")
				}
				rs = append(rs, rune(rt.Signed()))
			}
			return string(rs)
		}
		return x
	case complex128:
		return x
	}
	if types.Identical(ud, us) {
		return x
	}
	panic(fmt.Sprintf("conv: unsupported %v → %v (%T)", tsrc, tdst, x))
}

func (fr *frame) slice(instr *ssa.Slice, x, lo, hi, max Value) Value {
	m := fr.m
	if p, bad := x.(Poison); bad {
		return p
	}
	var length, capacity int
	switch x := x.(type) {
	case string:
		length, capacity = len(x), len(x)
	case SymStr:
		length, capacity = len(x), len(x)
	case []Value:
		length, capacity = len(x), cap(x)
	case *Value:
		if x == nil {
			fr.tpanic("nil-deref", "slice of nil array pointer")
		}
		a := (*x).(Array)
		length, capacity = len(a), len(a)
	default:
		panic(fmt.Sprintf("slice: unexpected %T", x))
	}
	_, isStr := x.(string)
	_, isSym := x.(SymStr)
	isStr = isStr || isSym

	l := term.Const(64, 0)
	if lo != nil {
		l = fr.toInt64(lo, instr.Low.Type())
	}
	h := term.Const(64, uint64(length))
	if hi != nil {
		h = fr.toInt64(hi, instr.High.Type())
	}
	mx := term.Const(64, uint64(capacity))
	if max != nil {
		mx = fr.toInt64(max, instr.Max.Type())
	}
	// Go checks: 0 <= lo <= hi <= max <= cap   (hi <= len for strings)
	limit := capacity
	if isStr {
		limit = length
	}
	ok := term.And(term.Cmp(term.OUle, mx, term.Const(64, uint64(limit))),
		term.And(term.Cmp(term.OUle, h, mx), term.Cmp(term.OUle, l, h)))
	if !m.Decide(ok) {
		fr.tpanic("slice-bounds", "slice bounds out of range [%s:%s:%s] with capacity %d", describe(l), describe(h), describe(mx), limit)
	}
	li := int(m.Concretize(l, "slice low at "+m.posStr(fr.curPos)))
	hiI := int(m.Concretize(h, "slice high at "+m.posStr(fr.curPos)))
	mi := int(m.Concretize(mx, "slice max at "+m.posStr(fr.curPos)))
	switch x := x.(type) {
	case string:
		return x[li:hiI]
	case SymStr:
		return mkStr(x[li:hiI])
	case []Value:
		if x == nil {
			return []Value(nil)
		}
		return x[li:hiI:mi]
	case *Value:
		a := (*x).(Array)
		return []Value(a)[li:hiI:mi]
	}
	panic("unreachable")
}

var stdSizes = types.SizesFor("gc", "amd64")

func (fr *frame) makeSlice(instr *ssa.MakeSlice) Value {
	m := fr.m
	ln := fr.toInt64(fr.get(instr.Len), instr.Len.Type())
	cp := fr.toInt64(fr.get(instr.Cap), instr.Cap.Type())
	tElt := instr.Type().Underlying().(*types.Slice).Elem()
	esz := stdSizes.Sizeof(tElt)
	if esz < 1 {
		esz = 1
	}
	n, c := fr.checkedAlloc(ln, cp, esz, "makeslice")
	return m.newSlice(tElt, n, c)
}

func (m *Machine) newSlice(tElt types.Type, n, c int) []Value {
	s := make([]Value, c)
	if c > 0 {
		z := m.zero(tElt)
		_, a1 := z.(Struct)
		_, a2 := z.(Array)
		for i := range s {
			if a1 || a2 {
				s[i] = copyVal(z)
			} else {
				s[i] = z
			}
		}
	}
	return s[:n]
}

// checkedAlloc validates a symbolic (len, cap) pair the way the Go runtime does, and
// additionally reports allocations above the harness's budget as outcome "alloc".
func (fr *frame) checkedAlloc(ln, cp *term.Term, elemSize int64, what string) (int, int) {
	m := fr.m
	// the Go runtime panics for negative sizes and for sizes above maxAlloc (2^48 bytes)
	maxElems := int64(1<<47) / elemSize
	bad := term.Or(term.Cmp(term.OSlt, ln, term.Const(64, 0)),
		term.Or(term.Cmp(term.OSlt, cp, ln), term.Cmp(term.OSlt, term.Const(64, uint64(maxElems)), cp)))
	if m.Decide(bad) {
		fr.tpanic("makeslice", "%s: len/cap out of range", what)
	}
	budgetElems := m.allocBudget / elemSize
	over := term.Cmp(term.OSlt, term.Const(64, uint64(budgetElems)), cp)
	if m.Decide(over) {
		// prefer a moderately sized witness so that the native replay stays cheap
		modest := term.Cmp(term.OSle, cp, term.Const(64, uint64((int64(1)<<30)/elemSize)))
		if r, mod := m.query(modest); r == smt.Sat {
			m.Solver.Assert(modest)
			m.setModel(mod)
		}
		panic(targetPanic{v: Iface{T: types.Typ[types.String], V: "allocation of more than the budgeted " + fmt.Sprint(m.allocBudget) + " bytes"}, kind: "alloc", pos: m.posStr(fr.curPos), fn: fr.fn.String()})
	}
	n := int(m.Concretize(ln, what+" len at "+m.posStr(fr.curPos)))
	c := int(m.Concretize(cp, what+" cap at "+m.posStr(fr.curPos)))
	return n, c
}

// ---------------------------------------------------------------------------
// maps

func (m *Machine) mapFind(mp *Map, key Value) *mapEntry {
	if mp == nil {
		return nil
	}
	if ck, ok := canonKey(key); ok {
		if i, ok := mp.index[ck]; ok {
			return mp.entries[i]
		}
		// symbolic keys already present must be compared by the solver
		for _, e := range mp.entries {
			if e.deleted {
				continue
			}
			if _, conc := canonKey(e.k); conc {
				continue
			}
			if m.Decide(m.equals(nil, e.k, key)) {
				return e
			}
		}
		return nil
	}
	for _, e := range mp.entries {
		if e.deleted {
			continue
		}
		if m.Decide(m.equals(nil, e.k, key)) {
			return e
		}
	}
	return nil
}

func (m *Machine) mapSet(mp *Map, key, val Value) {
	e := m.mapFind(mp, key)
	m.logMap(mp)
	if e != nil {
		e.v = val // logMap saved copies; e is the live entry
		return
	}
	mp.entries = append(mp.entries, &mapEntry{k: key, v: val})
	if ck, ok := canonKey(key); ok {
		mp.index[ck] = len(mp.entries) - 1
	}
	mp.n++
}

func (m *Machine) mapDelete(mp *Map, key Value) {
	if mp == nil {
		return
	}
	e := m.mapFind(mp, key)
	if e == nil {
		return
	}
	m.logMap(mp)
	e.deleted = true
	if ck, ok := canonKey(e.k); ok {
		delete(mp.index, ck)
	}
	mp.n--
}

func (fr *frame) lookup(instr *ssa.Lookup, x, idx Value) Value {
	m := fr.m
	if p, bad := x.(Poison); bad {
		m.unsupported("lookup in poison: %s", p.Why)
	}
	switch x := x.(type) {
	case *Map:
		e := m.mapFind(x, idx)
		var v Value
		ok := e != nil
		if ok {
			v = copyVal(e.v)
		} else {
			v = m.zero(instr.X.Type().Underlying().(*types.Map).Elem())
		}
		if instr.CommaOk {
			return Tuple{v, term.Bool(ok)}
		}
		return v
	case string:
		i := fr.boundsIndex(fr.toInt64(idx, instr.Index.Type()), len(x))
		return term.Const(8, uint64(x[i]))
	case SymStr:
		i := fr.boundsIndex(fr.toInt64(idx, instr.Index.Type()), len(x))
		return x[i]
	}
	panic(fmt.Sprintf("lookup: unexpected %T", x))
}

type mapIter struct {
	mp      *Map
	i       int
	entries []*mapEntry
	kt, vt  types.Type
}

func (it *mapIter) next(m *Machine) Tuple {
	for it.i < len(it.entries) {
		e := it.entries[it.i]
		it.i++
		// entries deleted during iteration are skipped (check the live map)
		live := false
		for _, le := range it.mp.entries {
			if le == e && !le.deleted {
				live = true
				break
			}
		}
		if !live {
			continue
		}
		return Tuple{term.True, e.k, copyVal(e.v)}
	}
	return Tuple{term.False, nil, nil}
}

type strIter struct {
	s Value
	i int
}

func (it *strIter) next(m *Machine) Tuple {
	n := strLen(it.s)
	if it.i >= n {
		return Tuple{term.False, term.Const(64, 0), term.Const(32, 0)}
	}
	start := it.i
	switch s := it.s.(type) {
	case string:
		r, sz := utf8.DecodeRuneInString(s[it.i:])
		it.i += sz
		return Tuple{term.True, term.Const(64, uint64(start)), term.Const(32, uint64(uint32(r)))}
	case SymStr:
		b0 := s[it.i]
		// Fork on "is this byte ASCII"; multi-byte sequences with symbolic lead bytes are concretised.
		if m.Decide(term.Cmp(term.OUlt, b0, term.Const(8, 0x80))) {
			it.i++
			return Tuple{term.True, term.Const(64, uint64(start)), term.ZExt(b0, 32)}
		}
		// concretise up to 4 bytes and decode natively
		var buf []byte
		for k := 0; k < 4 && it.i+k < n; k++ {
			buf = append(buf, byte(m.Concretize(term.ZExt(s[it.i+k], 64), "utf8 byte")))
			if utf8.FullRune(buf) {
				break
			}
		}
		r, sz := utf8.DecodeRune(buf)
		it.i += sz
		return Tuple{term.True, term.Const(64, uint64(start)), term.Const(32, uint64(uint32(r)))}
	}
	panic("strIter")
}

func (fr *frame) rangeIter(x Value, t types.Type) rangeIter {
	switch x := x.(type) {
	case *Map:
		it := &mapIter{mp: x}
		if x != nil {
			it.entries = append(it.entries, x.entries...)
		}
		return it
	case string, SymStr:
		return &strIter{s: x}
	case Poison:
		fr.m.unsupported("range over poison: %s", x.Why)
	}
	panic(fmt.Sprintf("cannot range over %T", x))
}

// ---------------------------------------------------------------------------
// type assertions

func (m *Machine) implements(t types.Type, iface *types.Interface) bool {
	if iface.NumMethods() == 0 {
		return true
	}
	return types.Implements(t, iface)
}

func (fr *frame) typeAssert(instr *ssa.TypeAssert, xv Value) Value {
	m := fr.m
	if p, bad := xv.(Poison); bad {
		m.unsupported("type assertion on poison: %s", p.Why)
	}
	x := xv.(Iface)
	var v Value
	ok := false
	if idst, isI := instr.AssertedType.Underlying().(*types.Interface); isI {
		if x.T != nil && m.implements(x.T, idst) {
			v, ok = x, true
		}
	} else if x.T != nil && types.Identical(x.T, instr.AssertedType) {
		v, ok = copyVal(x.V), true
	}
	if !ok {
		if !instr.CommaOk {
			have := "nil"
			if x.T != nil {
				have = typeStr(x.T)
			}
			fr.tpanic("type-assert", "interface conversion: interface is %s, not %s", have, typeStr(instr.AssertedType))
		}
		v = m.zero(instr.AssertedType)
	}
	if instr.CommaOk {
		return Tuple{v, term.Bool(ok)}
	}
	return v
}

// ---------------------------------------------------------------------------
// builtins

func (fr *frame) callBuiltin(fn *ssa.Builtin, args []Value) Value {
	m := fr.m
	for _, a := range args {
		if p, bad := a.(Poison); bad {
			if m.inInit {
				return p
			}
			m.unsupported("builtin %s on poison: %s", fn.Name(), p.Why)
		}
	}
	switch fn.Name() {
	case "append":
		return fr.appendSlice(fn, args)
	case "copy":
		dst := args[0].([]Value)
		var src []Value
		switch s := args[1].(type) {
		case []Value:
			src = s
		case string, SymStr:
			for _, b := range strBytes(s) {
				src = append(src, b)
			}
		}
		n := len(dst)
		if len(src) < n {
			n = len(src)
		}
		tmp := make([]Value, n)
		for i := 0; i < n; i++ {
			tmp[i] = copyVal(src[i])
		}
		for i := 0; i < n; i++ {
			m.store(&dst[i], tmp[i])
		}
		return term.Const(64, uint64(n))
	case "close":
		m.chanClose(fr, args[0].(*Chan))
		return nil
	case "delete":
		m.mapDelete(args[0].(*Map), args[1])
		return nil
	case "clear":
		switch x := args[0].(type) {
		case *Map:
			if x != nil {
				m.logMap(x)
				x.entries, x.index, x.n = nil, map[string]int{}, 0
			}
		case []Value:
			if len(x) > 0 {
				et := fn.Type().(*types.Signature).Params().At(0).Type().Underlying().(*types.Slice).Elem()
				for i := range x {
					m.store(&x[i], m.zero(et))
				}
			}
		}
		return nil
	case "print", "println":
		return nil
	case "len":
		switch x := args[0].(type) {
		case string:
			return term.Const(64, uint64(len(x)))
		case SymStr:
			return term.Const(64, uint64(len(x)))
		case Array:
			return term.Const(64, uint64(len(x)))
		case *Value:
			if x == nil {
				// len of nil *array is the array length; obtain from type
				at := fn.Type().(*types.Signature).Params().At(0).Type().Underlying().(*types.Pointer).Elem().Underlying().(*types.Array)
				return term.Const(64, uint64(at.Len()))
			}
			return term.Const(64, uint64(len((*x).(Array))))
		case []Value:
			return term.Const(64, uint64(len(x)))
		case *Map:
			if x == nil {
				return term.Const(64, 0)
			}
			// a map with symbolic keys has a definite size only after comparisons; n counts distinct inserted entries
			return term.Const(64, uint64(x.n))
		case *Chan:
			if x == nil {
				return term.Const(64, 0)
			}
			return term.Const(64, uint64(len(x.buf)))
		}
		panic(fmt.Sprintf("len: illegal operand: %T", args[0]))
	case "cap":
		switch x := args[0].(type) {
		case Array:
			return term.Const(64, uint64(len(x)))
		case *Value:
			return term.Const(64, uint64(len((*x).(Array))))
		case []Value:
			return term.Const(64, uint64(cap(x)))
		case *Chan:
			if x == nil {
				return term.Const(64, 0)
			}
			return term.Const(64, uint64(x.cap))
		}
		panic(fmt.Sprintf("cap: illegal operand: %T", args[0]))
	case "min", "max":
		isMin := fn.Name() == "min"
		t := fn.Type().(*types.Signature).Params().At(0).Type()
		acc := args[0]
		for _, a := range args[1:] {
			switch x := acc.(type) {
			case *term.Term:
				_, signed, _ := intInfo(t)
				op := term.OUlt
				if signed {
					op = term.OSlt
				}
				lt := term.Cmp(op, x, a.(*term.Term))
				if isMin {
					acc = term.Ite(lt, x, a.(*term.Term))
				} else {
					acc = term.Ite(lt, a.(*term.Term), x)
				}
			case float64:
				if isMin {
					acc = math.Min(x, a.(float64))
				} else {
					acc = math.Max(x, a.(float64))
				}
			default:
				lt := m.Decide(strLess(acc, a, false))
				if lt != isMin {
					acc = a
				}
			}
		}
		return acc
	case "panic":
		panic(targetPanic{v: args[0], kind: "explicit", pos: m.posStr(fr.curPos), fn: fr.fn.String()})
	case "recover":
		return m.doRecover(fr)
	case "ssa:wrapnilchk":
		recv := args[0]
		if p, ok := recv.(*Value); ok && p == nil {
			fr.tpanic("nil-deref", "value method %s.%s called using nil pointer", describe(args[1]), describe(args[2]))
		}
		return recv
	case "ssa:deferstack":
		return &fr.defers
	}
	panic("unknown built-in: " + fn.Name())
}

func (fr *frame) appendSlice(fn *ssa.Builtin, args []Value) Value {
	m := fr.m
	dst, _ := args[0].([]Value)
	var src []Value
	switch s := args[1].(type) {
	case []Value:
		src = s
	case string, SymStr:
		for _, b := range strBytes(s) {
			src = append(src, b)
		}
	case nil:
	}
	if len(src) == 0 {
		return dst
	}
	need := len(dst) + len(src)
	if need <= cap(dst) {
		out := dst[:need]
		for i, v := range src {
			m.store(&out[len(dst)+i], copyVal(v))
		}
		return out
	}
	nc := 2 * cap(dst)
	if nc < need {
		nc = need
	}
	if cap(dst) == 0 && need < 8 {
		// the Go runtime rounds small allocations up to a size class; byte slices get at least 8
		if sl, ok := fn.Type().(*types.Signature).Params().At(0).Type().Underlying().(*types.Slice); ok {
			if b, ok := sl.Elem().Underlying().(*types.Basic); ok && b.Kind() == types.Uint8 {
				nc = 8
			}
		}
	}
	out := make([]Value, need, nc)
	for i, v := range dst {
		out[i] = copyVal(v)
	}
	for i, v := range src {
		out[len(dst)+i] = copyVal(v)
	}
	// zero the spare capacity
	if nc > need {
		var et types.Type
		if sl, ok := fn.Type().(*types.Signature).Params().At(0).Type().Underlying().(*types.Slice); ok {
			et = sl.Elem()
		}
		spare := out[need:nc]
		for i := range spare {
			if et != nil {
				spare[i] = m.zero(et)
			}
		}
	}
	return out
}

// LazyFloat is an integer term converted to floating point whose value has not been needed yet.
type LazyFloat struct {
	T      *term.Term
	Signed bool
	F32    bool
}

// forceFloat concretises a lazy float (one path per feasible value) when it is computed with.
func (m *Machine) forceFloat(v Value) Value {
	lf, ok := v.(LazyFloat)
	if !ok {
		return v
	}
	c := m.Concretize(lf.T, "int→float")
	var f float64
	if lf.Signed {
		f = float64(c)
	} else {
		f = float64(uint64(c))
	}
	if lf.F32 {
		f = float64(float32(f))
	}
	return f
}
