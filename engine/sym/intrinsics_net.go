package sym

import (
	"crypto/md5"
	"crypto/sha1"
	"crypto/sha256"
	"fmt"
	"net"
	"strings"

	"gosym/term"
)

// termKey returns a structural key for small terms (pointer identity for large ones).
func termKey(t *term.Term) string {
	n := 0
	var ref func(x *term.Term) string
	ref = func(x *term.Term) string {
		n++
		if n > 400 {
			return fmt.Sprintf("@%p", x)
		}
		return x.Shallow(ref)
	}
	return t.Shallow(ref)
}

// keyedToken returns an opaque string standing for an encoded value; equal keys give equal tokens.
func (m *Machine) keyedToken(kind, key string, payload any) string {
	if m.tokenByKey == nil {
		m.tokenByKey = map[string]string{}
	}
	k := kind + "|" + key
	if s, ok := m.tokenByKey[k]; ok {
		return s
	}
	s := m.newToken(kind, payload)
	m.tokenByKey[k] = s
	return s
}

func init() {
	reg("(net.IP).String", func(fr *frame, args []Value) Value {
		bs := bytesOf(args[0])
		if raw, ok := allConst(bs); ok {
			return net.IP(raw).String()
		}
		keys := make([]string, len(bs))
		for i, b := range bs {
			keys[i] = termKey(b)
		}
		fr.m.StubsHit["token:net.IP.String"]++
		return fr.m.keyedToken("ip", strings.Join(keys, ","), bs)
	})
}

func init() {
	hashUF := func(name string, n int, native func([]byte) []byte) intrinsic {
		return func(fr *frame, args []Value) Value {
			bs := bytesOf(args[0])
			out := make(Array, n)
			if raw, ok := allConst(bs); ok {
				for i, b := range native(raw) {
					out[i] = term.Const(8, uint64(b))
				}
				return out
			}
			fr.m.StubsHit["uf:"+name]++
			for i := range out {
				out[i] = term.UF(fmt.Sprintf("%s_%d_b%d", name, len(bs), i), 8, bs)
			}
			return out
		}
	}
	reg("crypto/sha1.Sum", hashUF("sha1", 20, func(b []byte) []byte { s := sha1.Sum(b); return s[:] }))
	reg("crypto/sha256.Sum256", hashUF("sha256", 32, func(b []byte) []byte { s := sha256.Sum256(b); return s[:] }))
	reg("crypto/md5.Sum", hashUF("md5", 16, func(b []byte) []byte { s := md5.Sum(b); return s[:] }))
}
