package sym

import (
	"fmt"
	"net"
	"strings"

	"gosym/term"
)

// termKey returns a structural key for small terms (pointer identity for large ones).
func termKey(t *term.Term) string {
	n := 0
	var ref func(x *term.Term) string
	ref = func(x *term.Term) string {
		n++
		if n > 400 {
			return fmt.Sprintf("@%p", x)
		}
		return x.Shallow(ref)
	}
	return t.Shallow(ref)
}

// keyedToken returns an opaque string standing for an encoded value; equal keys give equal tokens.
func (m *Machine) keyedToken(kind, key string, payload any) string {
	if m.tokenByKey == nil {
		m.tokenByKey = map[string]string{}
	}
	k := kind + "|" + key
	if s, ok := m.tokenByKey[k]; ok {
		return s
	}
	s := m.newToken(kind, payload)
	m.tokenByKey[k] = s
	return s
}

func init() {
	reg("(net.IP).String", func(fr *frame, args []Value) Value {
		bs := bytesOf(args[0])
		if raw, ok := allConst(bs); ok {
			return net.IP(raw).String()
		}
		keys := make([]string, len(bs))
		for i, b := range bs {
			keys[i] = termKey(b)
		}
		fr.m.StubsHit["token:net.IP.String"]++
		return fr.m.keyedToken("ip", strings.Join(keys, ","), bs)
	})
}
