package sym

import (
	"fmt"
	"go/token"
	"go/types"
	"runtime/debug"
	"slices"
	"strings"

	"golang.org/x/tools/go/ssa"
	"gosym/term"
)

type deferred struct {
	fn    Value
	args  []Value
	instr *ssa.Defer
	tail  *deferred
}

type frame struct {
	m                *Machine
	caller           *frame
	fn               *ssa.Function
	block, prevBlock *ssa.BasicBlock
	env              map[ssa.Value]Value
	locals           []Value
	defers           *deferred
	result           Value
	panicking        bool
	panicVal         any
	phitemps         []Value
	curPos           token.Pos
}

func (fr *frame) get(key ssa.Value) Value {
	switch key := key.(type) {
	case nil:
		return nil
	case *ssa.Function:
		return key
	case *ssa.Builtin:
		return key
	case *ssa.Const:
		return fr.m.constValue(key)
	case *ssa.Global:
		return fr.m.globalAddr(key)
	}
	if r, ok := fr.env[key]; ok {
		return r
	}
	panic(fmt.Sprintf("get: no value for %T: %v in %s", key, key.Name(), fr.fn))
}

func (m *Machine) globalAddr(g *ssa.Global) *Value {
	if g.Pkg != nil && !m.inInit && !m.TaintOK[g.Pkg.Pkg.Path()] {
		if why, bad := m.Tainted[g.Pkg.Pkg.Path()]; bad {
			m.unsupported("global %s of a package whose initialiser was not completed: %s", g, why)
		}
		if !m.initPkg[g.Pkg] {
			m.unsupported("global %s of a package whose initialiser was never reached (an importer is not on the init allow list); name it in init_extra", g)
		}
	}
	if p, ok := m.globals[g]; ok {
		return p
	}
	p := new(Value)
	*p = m.zero(g.Type().(*types.Pointer).Elem())
	m.globals[g] = p
	return p
}

func (m *Machine) constValue(c *ssa.Const) Value {
	if c.Value == nil {
		return m.zero(c.Type())
	}
	t := c.Type()
	if tp, ok := t.(*types.TypeParam); ok {
		_ = tp
		m.unsupported("constant of type parameter type")
	}
	if b, ok := t.Underlying().(*types.Basic); ok {
		if w, signed, ok := basicWidth(b); ok {
			if w == 0 {
				return term.Bool(constantBool(c))
			}
			if signed {
				return term.Const(w, uint64(c.Int64()))
			}
			return term.Const(w, c.Uint64())
		}
		switch {
		case b.Info()&types.IsFloat != 0:
			return c.Float64()
		case b.Info()&types.IsString != 0:
			return constantString(c)
		case b.Info()&types.IsComplex != 0:
			return c.Complex128()
		}
	}
	panic(fmt.Sprintf("constValue: unexpected constant %v of type %v", c, t))
}

func (fr *frame) runDefer(d *deferred) {
	var ok bool
	defer func() {
		if !ok {
			r := recover()
			if ab, isAb := r.(abort); isAb {
				panic(ab)
			}
			if _, isT := r.(targetPanic); !isT {
				panic(r) // engine bug
			}
			fr.panicking = true
			fr.panicVal = r
		}
	}()
	fr.m.call(fr, d.instr.Pos(), d.fn, d.args)
	ok = true
}

func (fr *frame) runDefers() {
	for d := fr.defers; d != nil; d = d.tail {
		fr.runDefer(d)
	}
	fr.defers = nil
	if fr.panicking {
		panic(fr.panicVal)
	}
}

func (fr *frame) tpanic(kind string, format string, args ...any) {
	panic(targetPanic{v: Iface{T: types.Typ[types.String], V: "runtime error: " + fmt.Sprintf(format, args...)}, kind: kind, pos: fr.m.posStr(fr.curPos), fn: fr.fn.String()})
}

func (m *Machine) lookupMethod(typ types.Type, meth *types.Func) *ssa.Function {
	return m.Prog.LookupMethod(typ, meth.Pkg(), meth.Name())
}

func (fr *frame) visitInstr(instr ssa.Instruction) (ret bool) {
	m := fr.m
	m.steps++
	if m.steps > m.Limits.MaxSteps {
		panic(abort{abLimit, fmt.Sprintf("unwind: more than %d interpreted instructions on one path", m.Limits.MaxSteps)})
	}
	if p := instr.Pos(); p != token.NoPos {
		fr.curPos = p
	}
	if m.Trace {
		m.curFrame = fr
	}
	switch instr := instr.(type) {
	case *ssa.DebugRef:
	case *ssa.UnOp:
		fr.env[instr] = fr.unop(instr, fr.get(instr.X))
	case *ssa.BinOp:
		fr.env[instr] = fr.binop(instr.Op, instr.X.Type(), instr.Y.Type(), fr.get(instr.X), fr.get(instr.Y))
	case *ssa.Call:
		fn, args := fr.prepareCall(&instr.Call)
		fr.env[instr] = m.call(fr, instr.Pos(), fn, args)
	case *ssa.ChangeInterface:
		fr.env[instr] = fr.get(instr.X)
	case *ssa.ChangeType:
		fr.env[instr] = fr.get(instr.X)
	case *ssa.Convert:
		fr.env[instr] = fr.conv(instr.Type(), instr.X.Type(), fr.get(instr.X))
	case *ssa.MultiConvert:
		fr.env[instr] = fr.conv(instr.Type(), instr.X.Type(), fr.get(instr.X))
	case *ssa.SliceToArrayPointer:
		x := fr.get(instr.X).([]Value)
		n := int(instr.Type().Underlying().(*types.Pointer).Elem().Underlying().(*types.Array).Len())
		if len(x) < n {
			fr.tpanic("slice-to-array", "cannot convert slice with length %d to array or pointer to array with length %d", len(x), n)
		}
		if x == nil {
			fr.env[instr] = (*Value)(nil)
		} else {
			// NOTE: aliasing with the slice is preserved because Array shares the backing store.
			var cell Value = Array(x[:n:n])
			fr.env[instr] = &cell
		}
	case *ssa.MakeInterface:
		v := fr.get(instr.X)
		if _, bad := v.(Poison); bad {
			fr.env[instr] = v
		} else {
			fr.env[instr] = Iface{T: instr.X.Type(), V: v}
		}
	case *ssa.Extract:
		tup := fr.get(instr.Tuple)
		if p, bad := tup.(Poison); bad {
			fr.env[instr] = p
		} else {
			fr.env[instr] = tup.(Tuple)[instr.Index]
		}
	case *ssa.Slice:
		fr.env[instr] = fr.slice(instr, fr.get(instr.X), fr.get(instr.Low), fr.get(instr.High), fr.get(instr.Max))
	case *ssa.Return:
		switch len(instr.Results) {
		case 0:
		case 1:
			fr.result = fr.get(instr.Results[0])
		default:
			res := make(Tuple, len(instr.Results))
			for i, r := range instr.Results {
				res[i] = fr.get(r)
			}
			fr.result = res
		}
		fr.block = nil
		return true
	case *ssa.RunDefers:
		fr.runDefers()
	case *ssa.Panic:
		panic(targetPanic{v: fr.get(instr.X), kind: "explicit", pos: m.posStr(instr.Pos()), fn: fr.fn.String()})
	case *ssa.Send:
		m.chanSend(fr, fr.get(instr.Chan).(*Chan), fr.get(instr.X))
	case *ssa.Store:
		av := fr.get(instr.Addr)
		if sp, isSym := av.(*SymElemPtr); isSym {
			sp.storeVal(m, fr.get(instr.Val))
			break
		}
		p := fr.ptr(av)
		m.store(p, copyVal(fr.get(instr.Val)))
	case *ssa.If:
		c := fr.get(instr.Cond)
		ct, ok := c.(*term.Term)
		if !ok {
			m.unsupported("branch on %s", describe(c))
		}
		succ := 1
		if m.Decide(ct) {
			succ = 0
		}
		fr.prevBlock, fr.block = fr.block, fr.block.Succs[succ]
	case *ssa.Jump:
		fr.prevBlock, fr.block = fr.block, fr.block.Succs[0]
	case *ssa.Defer:
		fn, args := fr.prepareCall(&instr.Call)
		defers := &fr.defers
		if instr.DeferStack != nil {
			if into := fr.get(instr.DeferStack); into != nil {
				defers = into.(**deferred)
			}
		}
		*defers = &deferred{fn: fn, args: args, instr: instr, tail: *defers}
	case *ssa.Go:
		fn, args := fr.prepareCall(&instr.Call)
		m.spawn(fr, instr.Pos(), fn, args)
	case *ssa.MakeChan:
		n := m.Concretize(fr.toInt64(fr.get(instr.Size), instr.Size.Type()), "make(chan) size")
		fr.env[instr] = &Chan{cap: int(n), elem: instr.Type().Underlying().(*types.Chan).Elem()}
	case *ssa.Alloc:
		var addr *Value
		if instr.Heap {
			addr = new(Value)
			fr.env[instr] = addr
			*addr = m.zero(instr.Type().Underlying().(*types.Pointer).Elem())
		} else {
			addr = fr.env[instr].(*Value)
			m.store(addr, m.zero(instr.Type().Underlying().(*types.Pointer).Elem()))
		}
	case *ssa.MakeSlice:
		fr.env[instr] = fr.makeSlice(instr)
	case *ssa.MakeMap:
		fr.env[instr] = &Map{index: map[string]int{}}
	case *ssa.Range:
		fr.env[instr] = fr.rangeIter(fr.get(instr.X), instr.X.Type())
	case *ssa.Next:
		fr.env[instr] = fr.get(instr.Iter).(rangeIter).next(m)
	case *ssa.FieldAddr:
		x := fr.get(instr.X)
		if p, bad := x.(Poison); bad {
			m.unsupported("field of poison: %s", p.Why)
		}
		p := x.(*Value)
		if p == nil {
			fr.tpanic("nil-deref", "invalid memory address or nil pointer dereference")
		}
		fr.env[instr] = &(*p).(Struct)[instr.Field]
	case *ssa.Field:
		x := fr.get(instr.X)
		if p, bad := x.(Poison); bad {
			fr.env[instr] = p
		} else {
			fr.env[instr] = x.(Struct)[instr.Field]
		}
	case *ssa.IndexAddr:
		x := fr.get(instr.X)
		idx := fr.toInt64(fr.get(instr.Index), instr.Index.Type())
		switch x := x.(type) {
		case []Value:
			if !idx.IsConst() && scalarCells(x) {
				fr.boundsOnly(idx, len(x))
				fr.env[instr] = &SymElemPtr{arr: x, idx: idx}
				break
			}
			i := fr.boundsIndex(idx, len(x))
			fr.env[instr] = &x[i]
		case *Value:
			if x == nil {
				fr.tpanic("nil-deref", "invalid memory address or nil pointer dereference")
			}
			a := (*x).(Array)
			if !idx.IsConst() && scalarCells(a) {
				fr.boundsOnly(idx, len(a))
				fr.env[instr] = &SymElemPtr{arr: a, idx: idx}
				break
			}
			i := fr.boundsIndex(idx, len(a))
			fr.env[instr] = &a[i]
		default:
			panic(fmt.Sprintf("unexpected x type in IndexAddr: %T", x))
		}
	case *ssa.Index:
		x := fr.get(instr.X)
		idx := fr.toInt64(fr.get(instr.Index), instr.Index.Type())
		switch x := x.(type) {
		case Array:
			if !idx.IsConst() && scalarCells(x) {
				fr.boundsOnly(idx, len(x))
				fr.env[instr] = (&SymElemPtr{arr: x, idx: idx}).load()
				break
			}
			i := fr.boundsIndex(idx, len(x))
			fr.env[instr] = x[i]
		case string:
			if !idx.IsConst() && len(x) > 0 && len(x) <= 4096 {
				// table lookup in a constant string (math/bits, kbin length tables): ite chain
				fr.boundsOnly(idx, len(x))
				fr.env[instr] = (&SymElemPtr{arr: byteSlice([]byte(x)), idx: idx}).load()
				break
			}
			i := fr.boundsIndex(idx, len(x))
			fr.env[instr] = term.Const(8, uint64(x[i]))
		case SymStr:
			if !idx.IsConst() && len(x) > 0 && len(x) <= 4096 {
				fr.boundsOnly(idx, len(x))
				cells := make([]Value, len(x))
				for k := range x {
					cells[k] = x[k]
				}
				fr.env[instr] = (&SymElemPtr{arr: cells, idx: idx}).load()
				break
			}
			i := fr.boundsIndex(idx, len(x))
			fr.env[instr] = x[i]
		default:
			panic(fmt.Sprintf("unexpected x type in Index: %T", x))
		}
	case *ssa.Lookup:
		fr.env[instr] = fr.lookup(instr, fr.get(instr.X), fr.get(instr.Index))
	case *ssa.MapUpdate:
		mp := fr.get(instr.Map)
		if p, bad := mp.(Poison); bad {
			m.unsupported("map update on poison: %s", p.Why)
		}
		mm := mp.(*Map)
		if mm == nil {
			fr.tpanic("nil-map", "assignment to entry in nil map")
		}
		m.mapSet(mm, fr.get(instr.Key), copyVal(fr.get(instr.Value)))
	case *ssa.TypeAssert:
		fr.env[instr] = fr.typeAssert(instr, fr.get(instr.X))
	case *ssa.MakeClosure:
		bindings := make([]Value, len(instr.Bindings))
		for i, b := range instr.Bindings {
			bindings[i] = fr.get(b)
		}
		fr.env[instr] = &Closure{instr.Fn.(*ssa.Function), bindings}
	case *ssa.Phi:
		panic("unreachable: phi")
	case *ssa.Select:
		fr.env[instr] = m.chanSelect(fr, instr)
	default:
		panic(fmt.Sprintf("unexpected instruction: %T", instr))
	}
	return false
}

// ptr checks a pointer operand for nil and returns it.
func (fr *frame) ptr(v Value) *Value {
	if p, bad := v.(Poison); bad {
		fr.m.unsupported("dereference of poison: %s", p.Why)
	}
	if sp, isSym := v.(*SymElemPtr); isSym {
		// a symbolic element address escaping into other uses is concretised
		i := fr.m.Concretize(sp.idx, "symbolic element address at "+fr.m.posStr(fr.curPos))
		return &sp.arr[i]
	}
	p, ok := v.(*Value)
	if !ok {
		panic(fmt.Sprintf("ptr: not a pointer: %T in %s", v, fr.fn))
	}
	if p == nil {
		fr.tpanic("nil-deref", "invalid memory address or nil pointer dereference")
	}
	return p
}

// toInt64 extends an integer term to 64 bits according to its Go type.
func (fr *frame) toInt64(v Value, t types.Type) *term.Term {
	if v == nil {
		return nil
	}
	if p, bad := v.(Poison); bad {
		fr.m.unsupported("integer from poison: %s", p.Why)
	}
	x := v.(*term.Term)
	if x.W == 64 {
		return x
	}
	_, signed, _ := intInfo(t)
	if signed {
		return term.SExt(x, 64)
	}
	return term.ZExt(x, 64)
}

// boundsOnly checks 0 <= idx < n (forking the panic path) without concretising idx.
func (fr *frame) boundsOnly(idx *term.Term, n int) {
	in := term.Cmp(term.OUlt, idx, term.Const(64, uint64(n)))
	if !fr.m.Decide(in) {
		fr.tpanic("index", "index out of range [%s] with length %d", describe(idx), n)
	}
}

// boundsIndex checks 0 <= idx < n (forking the panic path) and concretises idx.
func (fr *frame) boundsIndex(idx *term.Term, n int) int {
	in := term.Cmp(term.OUlt, idx, term.Const(64, uint64(n)))
	if !fr.m.Decide(in) {
		fr.tpanic("index", "index out of range [%s] with length %d", describe(idx), n)
	}
	return int(fr.m.Concretize(idx, "index at "+fr.m.posStr(fr.curPos)))
}

func (fr *frame) prepareCall(call *ssa.CallCommon) (fn Value, args []Value) {
	v := fr.get(call.Value)
	if call.Method == nil {
		fn = v
	} else {
		if p, bad := v.(Poison); bad {
			fr.m.unsupported("method call on poison: %s", p.Why)
		}
		recv := v.(Iface)
		if recv.T == nil {
			fr.tpanic("nil-deref", "method %s invoked on nil interface", call.Method.Name())
		}
		f := fr.m.lookupMethod(recv.T, call.Method)
		if f == nil {
			panic(fmt.Sprintf("method set for dynamic type %v does not contain %s", recv.T, call.Method))
		}
		fn = f
		args = append(args, recv.V)
	}
	for _, arg := range call.Args {
		args = append(args, fr.get(arg))
	}
	return
}

func (m *Machine) call(caller *frame, pos token.Pos, fn Value, args []Value) Value {
	switch fn := fn.(type) {
	case *ssa.Function:
		if fn == nil {
			caller.tpanic("nil-deref", "call of nil function")
		}
		return m.callSSA(caller, pos, fn, args, nil)
	case *Closure:
		if fn == nil {
			caller.tpanic("nil-deref", "call of nil function")
		}
		return m.callSSA(caller, pos, fn.Fn, args, fn.Env)
	case *ssa.Builtin:
		return caller.callBuiltin(fn, args)
	case *HostFunc:
		return fn.F(m, caller, args)
	case Poison:
		m.unsupported("call of poison function value: %s", fn.Why)
	}
	panic(fmt.Sprintf("cannot call %T", fn))
}

// HostFunc is a function value implemented by the engine.
type HostFunc struct {
	Name string
	F    func(m *Machine, caller *frame, args []Value) Value
}

func fnKey(fn *ssa.Function) string {
	if o := fn.Origin(); o != nil {
		return o.String()
	}
	return fn.String()
}

func (m *Machine) callSSA(caller *frame, pos token.Pos, fn *ssa.Function, args []Value, env []Value) Value {
	m.FuncsEntered[fn]++
	if m.Trace {
		d := 0
		for f := caller; f != nil; f = f.caller {
			d++
		}
		m.tracef("%*scall %s\n", d, "", fn)
	}
	if fn.Parent() == nil {
		if fn.Synthetic == "package initializer" {
			return m.runPkgInit(caller, pos, fn)
		}
		if r, ok := m.callVsym(caller, fn, args); ok {
			return r
		}
		name := fnKey(fn)
		if ov, ok := m.overrides[name]; ok {
			return m.call(caller, pos, ov, args)
		}
		if in := intrinsics[name]; in != nil {
			m.StubsHit[name]++
			fr := &frame{m: m, caller: caller, fn: fn}
			if caller != nil {
				fr.curPos = caller.curPos
			}
			return in(fr, args)
		}
		if st, ok := m.stubByPackage(fn); ok {
			return st
		}
		if timeMethodGuard(fn) {
			if m.inInit {
				return Poison{"time method " + name}
			}
			m.unsupported("un-modelled time.Time method %s (called from %s)", name, callerName(caller))
		}
		if fn.Blocks == nil {
			if m.inInit {
				return Poison{"no code for " + name}
			}
			m.unsupported("no code for function %s (called from %s)", name, callerName(caller))
		}
	}
	if fn.TypeParams().Len() > 0 && len(fn.TypeArgs()) == 0 {
		m.unsupported("uninstantiated generic function %s", fn)
	}
	return m.execSSA(caller, fn, args, env)
}

func (m *Machine) execSSA(caller *frame, fn *ssa.Function, args []Value, env []Value) Value {
	fr := &frame{m: m, caller: caller, fn: fn}
	fr.env = make(map[ssa.Value]Value, 16)
	fr.block = fn.Blocks[0]
	fr.locals = make([]Value, len(fn.Locals))
	for i, l := range fn.Locals {
		fr.locals[i] = m.zero(l.Type().Underlying().(*types.Pointer).Elem())
		fr.env[l] = &fr.locals[i]
	}
	for i, p := range fn.Params {
		fr.env[p] = args[i]
	}
	for i, fv := range fn.FreeVars {
		fr.env[fv] = env[i]
	}
	for fr.block != nil {
		fr.runFrame()
	}
	return fr.result
}

func callerName(fr *frame) string {
	if fr == nil || fr.fn == nil {
		return "?"
	}
	return fr.fn.String() + " at " + fr.m.posStr(fr.curPos)
}

func (fr *frame) runFrame() {
	defer func() {
		if fr.block == nil {
			return // normal return
		}
		r := recover()
		switch r.(type) {
		case abort:
			panic(r)
		case targetPanic:
		default:
			// engine bug or host runtime error: surface with stack
			if _, ok := r.(engineError); ok {
				panic(r)
			}
			panic(engineError{fmt.Sprintf("%v in %s at %s\n%s", r, fr.fn, fr.m.posStr(fr.curPos), debug.Stack())})
		}
		fr.panicking = true
		fr.panicVal = r
		fr.runDefers()
		fr.block = fr.fn.Recover
		if fr.block == nil {
			// recovered in a function without named results: return zero values
			fr.result = fr.m.zero(fr.fn.Signature.Results())
			if fr.fn.Signature.Results().Len() == 0 {
				fr.result = nil
			}
		}
	}()
	for {
		nonPhis := fr.executePhis()
		for _, instr := range nonPhis {
			if fr.visitInstr(instr) {
				return
			}
		}
	}
}

type engineError struct{ msg string }

func (fr *frame) executePhis() []ssa.Instruction {
	firstNonPhi := -1
	for i, instr := range fr.block.Instrs {
		if _, ok := instr.(*ssa.Phi); !ok {
			firstNonPhi = i
			break
		}
	}
	nonPhis := fr.block.Instrs[firstNonPhi:]
	if firstNonPhi > 0 {
		phis := fr.block.Instrs[:firstNonPhi]
		predIndex := slices.Index(fr.block.Preds, fr.prevBlock)
		fr.phitemps = fr.phitemps[:0]
		for _, phi := range phis {
			fr.phitemps = append(fr.phitemps, fr.get(phi.(*ssa.Phi).Edges[predIndex]))
		}
		for i, phi := range phis {
			fr.env[phi.(*ssa.Phi)] = fr.phitemps[i]
		}
	}
	return nonPhis
}

func (m *Machine) doRecover(caller *frame) Value {
	if caller != nil && !caller.panicking && caller.caller != nil && caller.caller.panicking {
		caller.caller.panicking = false
		p := caller.caller.panicVal
		caller.caller.panicVal = nil
		switch p := p.(type) {
		case targetPanic:
			if iv, ok := p.v.(Iface); ok {
				return iv
			}
			return Iface{T: types.Typ[types.String], V: describe(p.v)}
		default:
			panic(fmt.Sprintf("unexpected panic type %T in target call to recover()", p))
		}
	}
	return Iface{}
}

// stubByPackage gives logging / metrics packages empty bodies.
func (m *Machine) stubByPackage(fn *ssa.Function) (Value, bool) {
	var path string
	if fn.Pkg != nil {
		path = fn.Pkg.Pkg.Path()
	} else if fn.Object() != nil && fn.Object().Pkg() != nil {
		path = fn.Object().Pkg().Path()
	} else if o := fn.Origin(); o != nil && o.Pkg != nil {
		path = o.Pkg.Pkg.Path()
	}
	if path == "" {
		return nil, false
	}
	noop := false
	for _, p := range noopPackages {
		if path == p || strings.HasPrefix(path, p+"/") {
			noop = true
			break
		}
	}
	if !noop {
		return nil, false
	}
	m.StubsHit["noop:"+path]++
	res := fn.Signature.Results()
	switch res.Len() {
	case 0:
		return nil, true
	case 1:
		return m.zero(res.At(0).Type()), true
	}
	return m.zero(res), true
}

var noopPackages = []string{
	"log", "log/slog", "go.uber.org/zap", "github.com/prometheus/client_golang",
	"go.opentelemetry.io/otel", "runtime/debug", "runtime/pprof", "runtime/trace", "expvar",
	"github.com/go-logr/logr", "k8s.io/klog/v2", "sigs.k8s.io/controller-runtime/pkg/log",
}

// runPkgInit runs a package initialiser if the package is on the allow list; unsupported
// constructs taint the package instead of aborting the run.
func (m *Machine) runPkgInit(caller *frame, pos token.Pos, fn *ssa.Function) (res Value) {
	pkg := fn.Pkg
	if m.initPkg[pkg] {
		return nil
	}
	m.initPkg[pkg] = true
	path := pkg.Pkg.Path()
	if m.InitAllow != nil && !m.InitAllow(path) {
		m.Tainted[path] = "initialiser not run (not on the allow list)"
		return nil
	}
	saved := m.inInit
	m.inInit = true
	defer func() {
		m.inInit = saved
		if r := recover(); r != nil {
			switch x := r.(type) {
			case abort:
				if x.kind == abUnsupported || x.kind == abLimit {
					m.Tainted[path] = x.msg
					return
				}
			case targetPanic:
				m.Tainted[path] = "panic in initialiser: " + x.String()
				return
			case engineError:
				m.Tainted[path] = "engine error in initialiser: " + x.msg
				return
			}
			panic(r)
		}
	}()
	m.execSSA(caller, fn, nil, nil)
	return nil
}

func (m *Machine) ensureInit(pkg *ssa.Package) {
	if f := pkg.Func("init"); f != nil {
		m.runPkgInit(nil, token.NoPos, f)
	}
}

// InitAll runs the initialiser of pkg (and, through it, of its imports) outside any run.
func (m *Machine) InitAll(pkg *ssa.Package) {
	m.nondetSeq = map[string]int{}
	m.overrides = map[string]Value{}
	m.events = nil
	m.sideMutex = map[*Value]*mutexState{}
	m.sideWG = map[*Value]*wgState{}
	m.sideSyncMap = map[*Value]*Map{}
	m.sideCond = map[*Value]*condState{}
	m.onceRun = map[*Value]bool{}
	m.reached = map[string]bool{}
	m.ConcOn = true
	m.allocBudget = 1 << 30 // initialisers build tables; the per-run budget is set by resetRun
	t := m.newThread("init")
	m.cur = t
	m.ensureInit(pkg)
	for _, path := range m.InitExtra {
		for _, p := range m.Prog.AllPackages() {
			if p.Pkg.Path() == path {
				m.ensureInit(p)
			}
		}
	}
	m.ConcOn = false
	m.threads = nil
	m.undo = m.undo[:0]
	m.mapUndos = m.mapUndos[:0]
}
