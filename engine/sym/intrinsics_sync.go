package sym

import (
	"go/types"
	"strings"

	"gosym/term"
)

func (m *Machine) mutexOf(p *Value) *mutexState {
	s := m.sideMutex[p]
	if s == nil {
		s = &mutexState{}
		m.sideMutex[p] = s
	}
	return s
}

func init() {
	lock := func(fr *frame, args []Value) Value {
		m := fr.m
		p := fr.ptr(args[0])
		m.yieldSync()
		s := m.mutexOf(p)
		m.blockUntil(func() bool { return !s.locked && s.readers == 0 })
		s.locked, s.owner = true, m.cur
		return nil
	}
	unlock := func(fr *frame, args []Value) Value {
		m := fr.m
		s := m.mutexOf(fr.ptr(args[0]))
		if !s.locked {
			fr.tpanic("sync", "sync: unlock of unlocked mutex")
		}
		s.locked, s.owner = false, nil
		return nil
	}
	tryLock := func(fr *frame, args []Value) Value {
		m := fr.m
		s := m.mutexOf(fr.ptr(args[0]))
		if s.locked || s.readers > 0 {
			return term.False
		}
		s.locked, s.owner = true, m.cur
		return term.True
	}
	for _, t := range []string{"(*sync.Mutex)", "(*internal/sync.Mutex)", "(*sync.RWMutex)"} {
		reg(t+".Lock", lock)
		reg(t+".Unlock", unlock)
		reg(t+".TryLock", tryLock)
	}
	reg("(*sync.RWMutex).RLock", func(fr *frame, args []Value) Value {
		m := fr.m
		p := fr.ptr(args[0])
		m.yieldSync()
		s := m.mutexOf(p)
		m.blockUntil(func() bool { return !s.locked })
		s.readers++
		return nil
	})
	reg("(*sync.RWMutex).RUnlock", func(fr *frame, args []Value) Value {
		s := fr.m.mutexOf(fr.ptr(args[0]))
		if s.readers <= 0 {
			fr.tpanic("sync", "sync: RUnlock of unlocked RWMutex")
		}
		s.readers--
		return nil
	})
	reg("(*sync.RWMutex).TryRLock", func(fr *frame, args []Value) Value {
		s := fr.m.mutexOf(fr.ptr(args[0]))
		if s.locked {
			return term.False
		}
		s.readers++
		return term.True
	})
	reg("(*sync.RWMutex).RLocker", func(fr *frame, args []Value) Value {
		fr.m.unsupported("RWMutex.RLocker")
		return nil
	})

	// Once
	reg("(*sync.Once).Do", func(fr *frame, args []Value) Value {
		m := fr.m
		p := fr.ptr(args[0])
		if m.onceBase[p] || m.onceRun[p] {
			return nil
		}
		if m.inInit {
			m.onceBase[p] = true
		} else {
			m.onceRun[p] = true
		}
		m.call(fr, fr.curPos, args[1], nil)
		return nil
	})

	// WaitGroup
	wg := func(m *Machine, p *Value) *wgState {
		s := m.sideWG[p]
		if s == nil {
			s = &wgState{}
			m.sideWG[p] = s
		}
		return s
	}
	reg("(*sync.WaitGroup).Add", func(fr *frame, args []Value) Value {
		s := wg(fr.m, fr.ptr(args[0]))
		s.n += fr.conc(args[1], "WaitGroup.Add")
		if s.n < 0 {
			fr.tpanic("sync", "sync: negative WaitGroup counter")
		}
		return nil
	})
	reg("(*sync.WaitGroup).Done", func(fr *frame, args []Value) Value {
		s := wg(fr.m, fr.ptr(args[0]))
		s.n--
		if s.n < 0 {
			fr.tpanic("sync", "sync: negative WaitGroup counter")
		}
		return nil
	})
	reg("(*sync.WaitGroup).Wait", func(fr *frame, args []Value) Value {
		m := fr.m
		s := wg(m, fr.ptr(args[0]))
		m.yieldSync()
		m.blockUntil(func() bool { return s.n == 0 })
		return nil
	})
	reg("(*sync.WaitGroup).Go", func(fr *frame, args []Value) Value {
		m := fr.m
		s := wg(m, fr.ptr(args[0]))
		s.n++
		f := args[1]
		m.spawn(fr, fr.curPos, &HostFunc{Name: "wg.Go", F: func(m *Machine, caller *frame, _ []Value) Value {
			defer func() { s.n-- }()
			m.call(caller, fr.curPos, f, nil)
			return nil
		}}, nil)
		return nil
	})

	// Cond
	cond := func(m *Machine, p *Value) *condState {
		s := m.sideCond[p]
		if s == nil {
			s = &condState{}
			m.sideCond[p] = s
		}
		return s
	}
	reg("(*sync.Cond).Wait", func(fr *frame, args []Value) Value {
		m := fr.m
		p := fr.ptr(args[0])
		s := cond(m, p)
		L := *structFieldAddr(p, recvElemType(fr), "L")
		li := L.(Iface)
		unlockM := m.findMethod(li.T, nil, "Unlock")
		lockM := m.findMethod(li.T, nil, "Lock")
		w := &condWaiter{}
		s.waiters = append(s.waiters, w)
		m.call(fr, fr.curPos, unlockM, []Value{li.V})
		m.blockUntil(func() bool { return w.signalled })
		m.call(fr, fr.curPos, lockM, []Value{li.V})
		return nil
	})
	reg("(*sync.Cond).Signal", func(fr *frame, args []Value) Value {
		s := cond(fr.m, fr.ptr(args[0]))
		if len(s.waiters) > 0 {
			s.waiters[0].signalled = true
			s.waiters = s.waiters[1:]
		}
		return nil
	})
	reg("(*sync.Cond).Broadcast", func(fr *frame, args []Value) Value {
		s := cond(fr.m, fr.ptr(args[0]))
		for _, w := range s.waiters {
			w.signalled = true
		}
		s.waiters = nil
		return nil
	})

	// Map: a side table per *sync.Map (interface keys compared like map[any]any keys)
	smap := func(m *Machine, p *Value) *Map {
		mp := m.sideSyncMap[p]
		if mp == nil {
			mp = &Map{index: map[string]int{}}
			m.sideSyncMap[p] = mp
		}
		return mp
	}
	reg("(*sync.Map).Load", func(fr *frame, args []Value) Value {
		if e := fr.m.mapFind(smap(fr.m, fr.ptr(args[0])), args[1]); e != nil {
			return Tuple{e.v, term.True}
		}
		return Tuple{Iface{}, term.False}
	})
	reg("(*sync.Map).Store", func(fr *frame, args []Value) Value {
		fr.m.mapSet(smap(fr.m, fr.ptr(args[0])), args[1], args[2])
		return nil
	})
	reg("(*sync.Map).LoadOrStore", func(fr *frame, args []Value) Value {
		mp := smap(fr.m, fr.ptr(args[0]))
		if e := fr.m.mapFind(mp, args[1]); e != nil {
			return Tuple{e.v, term.True}
		}
		fr.m.mapSet(mp, args[1], args[2])
		return Tuple{args[2], term.False}
	})
	reg("(*sync.Map).LoadAndDelete", func(fr *frame, args []Value) Value {
		mp := smap(fr.m, fr.ptr(args[0]))
		if e := fr.m.mapFind(mp, args[1]); e != nil {
			v := e.v
			fr.m.mapDelete(mp, args[1])
			return Tuple{v, term.True}
		}
		return Tuple{Iface{}, term.False}
	})
	reg("(*sync.Map).Delete", func(fr *frame, args []Value) Value {
		fr.m.mapDelete(smap(fr.m, fr.ptr(args[0])), args[1])
		return nil
	})
	reg("(*sync.Map).Swap", func(fr *frame, args []Value) Value {
		mp := smap(fr.m, fr.ptr(args[0]))
		if e := fr.m.mapFind(mp, args[1]); e != nil {
			old := e.v
			fr.m.mapSet(mp, args[1], args[2])
			return Tuple{old, term.True}
		}
		fr.m.mapSet(mp, args[1], args[2])
		return Tuple{Iface{}, term.False}
	})
	reg("(*sync.Map).Range", func(fr *frame, args []Value) Value {
		mp := smap(fr.m, fr.ptr(args[0]))
		snap := append([]*mapEntry(nil), mp.entries...)
		for _, e := range snap {
			if e.deleted {
				continue
			}
			r := fr.m.call(fr, fr.curPos, args[1], []Value{e.k, e.v})
			if t, ok := r.(*term.Term); ok && !fr.m.Decide(t) {
				break
			}
		}
		return nil
	})
	reg("(*sync.Map).Clear", func(fr *frame, args []Value) Value {
		mp := smap(fr.m, fr.ptr(args[0]))
		for _, e := range append([]*mapEntry(nil), mp.entries...) {
			if !e.deleted {
				fr.m.mapDelete(mp, e.k)
			}
		}
		return nil
	})

	// Pool
	reg("(*sync.Pool).Get", func(fr *frame, args []Value) Value {
		p := fr.ptr(args[0])
		newf := *structFieldAddr(p, recvElemType(fr), "New")
		if isNilValue(newf) {
			return Iface{}
		}
		return fr.m.call(fr, fr.curPos, newf, nil)
	})
	reg("(*sync.Pool).Put", func(fr *frame, args []Value) Value { return nil })

	// ----- sync/atomic -----
	load := func(fr *frame, args []Value) Value { return copyVal(*fr.ptr(args[0])) }
	store := func(fr *frame, args []Value) Value { fr.m.store(fr.ptr(args[0]), args[1]); return nil }
	add := func(fr *frame, args []Value) Value {
		p := fr.ptr(args[0])
		n := term.Bin(term.OAdd, (*p).(*term.Term), args[1].(*term.Term))
		fr.m.store(p, n)
		return n
	}
	swap := func(fr *frame, args []Value) Value {
		p := fr.ptr(args[0])
		old := *p
		fr.m.store(p, args[1])
		return old
	}
	cas := func(fr *frame, args []Value) Value {
		p := fr.ptr(args[0])
		if fr.m.Decide(fr.m.equals(nil, *p, args[1])) {
			fr.m.store(p, args[2])
			return term.True
		}
		return term.False
	}
	and := func(fr *frame, args []Value) Value {
		p := fr.ptr(args[0])
		old := (*p).(*term.Term)
		fr.m.store(p, term.Bin(term.OAnd, old, args[1].(*term.Term)))
		return old
	}
	or := func(fr *frame, args []Value) Value {
		p := fr.ptr(args[0])
		old := (*p).(*term.Term)
		fr.m.store(p, term.Bin(term.OOr, old, args[1].(*term.Term)))
		return old
	}
	for _, k := range []string{"Int32", "Int64", "Uint32", "Uint64", "Uintptr", "Pointer"} {
		reg("sync/atomic.Load"+k, load)
		reg("sync/atomic.Store"+k, store)
		reg("sync/atomic.Swap"+k, swap)
		reg("sync/atomic.CompareAndSwap"+k, cas)
		if k != "Pointer" {
			reg("sync/atomic.Add"+k, add)
			reg("sync/atomic.And"+k, and)
			reg("sync/atomic.Or"+k, or)
		}
	}
	// atomic.Value: keep the stored interface in field "v"
	reg("(*sync/atomic.Value).Load", func(fr *frame, args []Value) Value {
		return *structFieldAddr(fr.ptr(args[0]), recvElemType(fr), "v")
	})
	reg("(*sync/atomic.Value).Store", func(fr *frame, args []Value) Value {
		if isNilValue(args[1]) {
			fr.tpanic("atomic", "sync/atomic: store of nil value into Value")
		}
		fr.m.store(structFieldAddr(fr.ptr(args[0]), recvElemType(fr), "v"), args[1])
		return nil
	})
	reg("(*sync/atomic.Value).Swap", func(fr *frame, args []Value) Value {
		a := structFieldAddr(fr.ptr(args[0]), recvElemType(fr), "v")
		old := *a
		fr.m.store(a, args[1])
		return old
	})
	reg("(*sync/atomic.Value).CompareAndSwap", func(fr *frame, args []Value) Value {
		a := structFieldAddr(fr.ptr(args[0]), recvElemType(fr), "v")
		if fr.m.Decide(fr.m.equals(nil, *a, args[1])) {
			fr.m.store(a, args[2])
			return term.True
		}
		return term.False
	})
	// atomic.Pointer[T]: field "v" holds the pointer itself
	ptrField := func(fr *frame, args []Value) *Value {
		return structFieldAddr(fr.ptr(args[0]), recvElemType(fr), "v")
	}
	reg("(*sync/atomic.Pointer[T]).Load", func(fr *frame, args []Value) Value {
		v := *ptrField(fr, args)
		if v == nil {
			return (*Value)(nil)
		}
		return v
	})
	reg("(*sync/atomic.Pointer[T]).Store", func(fr *frame, args []Value) Value {
		fr.m.store(ptrField(fr, args), args[1])
		return nil
	})
	reg("(*sync/atomic.Pointer[T]).Swap", func(fr *frame, args []Value) Value {
		a := ptrField(fr, args)
		old := *a
		fr.m.store(a, args[1])
		return old
	})
	reg("(*sync/atomic.Pointer[T]).CompareAndSwap", func(fr *frame, args []Value) Value {
		a := ptrField(fr, args)
		cur, _ := (*a).(*Value)
		want, _ := args[1].(*Value)
		if cur == want {
			fr.m.store(a, args[2])
			return term.True
		}
		return term.False
	})
}

// isSyncType reports whether t is a sync primitive whose memory the engine treats as opaque.
func isSyncType(t types.Type) bool {
	s := typeStr(t)
	return strings.HasPrefix(s, "sync.") || strings.HasPrefix(s, "internal/sync.")
}
