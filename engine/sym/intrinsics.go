package sym

import (
	"fmt"
	"go/types"
	"hash/crc32"
	"strings"

	"golang.org/x/tools/go/ssa"
	"gosym/term"
)

type intrinsic func(fr *frame, args []Value) Value

var intrinsics = map[string]intrinsic{}

func reg(name string, f intrinsic) { intrinsics[name] = f }

func tInt(v int64) *term.Term   { return term.Const(64, uint64(v)) }
func tInt32(v int32) *term.Term { return term.Const(32, uint64(uint32(v))) }

func (fr *frame) conc(v Value, what string) int64 {
	t := v.(*term.Term)
	if t.W == 0 {
		if fr.m.Decide(t) {
			return 1
		}
		return 0
	}
	if t.W < 64 {
		t = term.SExt(t, 64)
	}
	return fr.m.Concretize(t, what)
}

// concStr returns a fully concrete Go string, concretising symbolic bytes.
func (fr *frame) concStr(v Value, what string) string {
	switch s := v.(type) {
	case string:
		return s
	case SymStr:
		b := make([]byte, len(s))
		for i, t := range s {
			b[i] = byte(fr.m.Concretize(term.ZExt(t, 64), what))
		}
		return string(b)
	}
	panic(fmt.Sprintf("concStr: %T", v))
}

func bytesOf(v Value) []*term.Term {
	switch s := v.(type) {
	case []Value:
		r := make([]*term.Term, len(s))
		for i, b := range s {
			r[i] = b.(*term.Term)
		}
		return r
	case string, SymStr:
		return strBytes(s)
	case nil:
		return nil
	}
	panic(fmt.Sprintf("bytesOf: %T", v))
}

func allConst(b []*term.Term) ([]byte, bool) {
	out := make([]byte, len(b))
	for i, t := range b {
		if !t.IsConst() {
			return nil, false
		}
		out[i] = byte(t.C)
	}
	return out, true
}

func byteSlice(b []byte) []Value {
	out := make([]Value, len(b))
	for i, x := range b {
		out[i] = term.Const(8, uint64(x))
	}
	return out
}

// structField returns a pointer to the named field of the struct *p (type t).
func structFieldAddr(p *Value, t types.Type, name string) *Value {
	st := t.Underlying().(*types.Struct)
	for i := 0; i < st.NumFields(); i++ {
		if st.Field(i).Name() == name {
			return &(*p).(Struct)[i]
		}
	}
	panic("no field " + name + " in " + typeStr(t))
}

func recvElemType(fr *frame) types.Type {
	return fr.fn.Signature.Recv().Type().Underlying().(*types.Pointer).Elem()
}

func init() {
	// ----- runtime / misc -----
	noop := func(fr *frame, args []Value) Value { return nil }
	for _, n := range []string{"runtime.Gosched", "runtime.KeepAlive", "runtime.SetFinalizer", "runtime.GC",
		"(*sync.noCopy).Lock", "(*sync.noCopy).Unlock", "(*strings.Builder).copyCheck", "internal/race.Acquire", "internal/race.Release",
		"internal/race.ReleaseMerge", "internal/race.Disable", "internal/race.Enable", "internal/race.Read", "internal/race.Write",
		"internal/race.ReadRange", "internal/race.WriteRange", "os/signal.Notify", "os/signal.Stop"} {
		reg(n, noop)
	}
	reg("runtime.GOMAXPROCS", func(fr *frame, args []Value) Value { return tInt(4) })
	reg("runtime.NumCPU", func(fr *frame, args []Value) Value { return tInt(4) })
	reg("runtime.NumGoroutine", func(fr *frame, args []Value) Value { return tInt(1) })
	reg("os.Getenv", func(fr *frame, args []Value) Value {
		k := fr.concStr(args[0], "os.Getenv key")
		return fr.m.Env[k]
	})
	reg("os.LookupEnv", func(fr *frame, args []Value) Value {
		k := fr.concStr(args[0], "os.LookupEnv key")
		v, ok := fr.m.Env[k]
		return Tuple{v, term.Bool(ok)}
	})
	reg("os.Hostname", func(fr *frame, args []Value) Value { return Tuple{"vsym-host", Iface{}} })

	// ----- strings.Builder / unsafe helpers -----
	reg("(*strings.Builder).String", func(fr *frame, args []Value) Value {
		p := fr.ptr(args[0])
		buf := *structFieldAddr(p, recvElemType(fr), "buf")
		return mkStr(bytesOf(buf))
	})
	reg("internal/stringslite.Clone", func(fr *frame, args []Value) Value { return args[0] })
	reg("strings.Clone", func(fr *frame, args []Value) Value { return args[0] })
	reg("internal/bytealg.MakeNoZero", func(fr *frame, args []Value) Value {
		n := int(fr.conc(args[0], "MakeNoZero"))
		return fr.m.newSlice(types.Typ[types.Uint8], n, n)
	})

	// ----- bytealg -----
	indexByte := func(fr *frame, hay []*term.Term, c *term.Term) Value {
		for i, b := range hay {
			if fr.m.Decide(term.Eq(b, c)) {
				return tInt(int64(i))
			}
		}
		return tInt(-1)
	}
	reg("internal/bytealg.IndexByte", func(fr *frame, args []Value) Value {
		return indexByte(fr, bytesOf(args[0]), args[1].(*term.Term))
	})
	reg("internal/bytealg.IndexByteString", func(fr *frame, args []Value) Value {
		return indexByte(fr, bytesOf(args[0]), args[1].(*term.Term))
	})
	lastIndexByte := func(fr *frame, args []Value) Value {
		hay, c := bytesOf(args[0]), args[1].(*term.Term)
		for i := len(hay) - 1; i >= 0; i-- {
			if fr.m.Decide(term.Eq(hay[i], c)) {
				return tInt(int64(i))
			}
		}
		return tInt(-1)
	}
	reg("internal/bytealg.LastIndexByte", lastIndexByte)
	reg("internal/bytealg.LastIndexByteString", lastIndexByte)
	count := func(fr *frame, args []Value) Value {
		hay, c := bytesOf(args[0]), args[1].(*term.Term)
		n := term.Const(64, 0)
		for _, b := range hay {
			n = term.Bin(term.OAdd, n, term.Ite(term.Eq(b, c), term.Const(64, 1), term.Const(64, 0)))
		}
		return n
	}
	reg("internal/bytealg.Count", count)
	reg("internal/bytealg.CountString", count)
	reg("internal/bytealg.Equal", func(fr *frame, args []Value) Value {
		return strEq(mkStr(bytesOf(args[0])), mkStr(bytesOf(args[1])))
	})
	reg("internal/bytealg.Compare", func(fr *frame, args []Value) Value {
		a, b := mkStr(bytesOf(args[0])), mkStr(bytesOf(args[1]))
		lt := strLess(a, b, false)
		eq := strEq(a, b)
		return term.Ite(lt, tInt(-1), term.Ite(eq, tInt(0), tInt(1)))
	})
	reg("internal/bytealg.CompareString", intrinsics["internal/bytealg.Compare"])
	index := func(fr *frame, args []Value) Value {
		hay, needle := bytesOf(args[0]), bytesOf(args[1])
		n := len(needle)
		for i := 0; i+n <= len(hay); i++ {
			eq := term.True
			for j := 0; j < n; j++ {
				eq = term.And(eq, term.Eq(hay[i+j], needle[j]))
			}
			if fr.m.Decide(eq) {
				return tInt(int64(i))
			}
		}
		return tInt(-1)
	}
	reg("internal/bytealg.Index", index)
	reg("internal/bytealg.IndexString", index)
	reg("strings.Index", index)
	reg("bytes.Index", index)
	reg("internal/stringslite.Index", index)
	reg("strings.Contains", func(fr *frame, args []Value) Value {
		r := index(fr, args).(*term.Term)
		return term.Bool(r.Signed() >= 0)
	})
	reg("strings.LastIndex", func(fr *frame, args []Value) Value {
		hay, needle := bytesOf(args[0]), bytesOf(args[1])
		n := len(needle)
		for i := len(hay) - n; i >= 0; i-- {
			eq := term.True
			for j := 0; j < n; j++ {
				eq = term.And(eq, term.Eq(hay[i+j], needle[j]))
			}
			if fr.m.Decide(eq) {
				return tInt(int64(i))
			}
		}
		return tInt(-1)
	})
	reg("internal/bytealg.IndexRabinKarp", index)
	reg("internal/bytealg.Cutover", func(fr *frame, args []Value) Value { return tInt(1 << 30) })

	// ----- hash -----
	reg("hash/crc32.ChecksumIEEE", func(fr *frame, args []Value) Value {
		return crcOf(fr, "ieee", crc32.IEEETable, term.Const(32, 0), bytesOf(args[0]))
	})
	reg("hash/crc32.Checksum", func(fr *frame, args []Value) Value {
		name, tab := crcTable(fr, args[1])
		return crcOf(fr, name, tab, term.Const(32, 0), bytesOf(args[0]))
	})
	reg("hash/crc32.Update", func(fr *frame, args []Value) Value {
		name, tab := crcTable(fr, args[1])
		return crcOf(fr, name, tab, args[0].(*term.Term), bytesOf(args[2]))
	})
	reg("hash/crc32.MakeTable", func(fr *frame, args []Value) Value {
		poly := uint32(fr.conc(args[0], "crc32 poly"))
		tab := crc32.MakeTable(poly)
		a := make(Array, 256)
		for i := range a {
			a[i] = term.Const(32, uint64(tab[i]))
		}
		var cell Value = a
		return &cell
	})
}

func crcTable(fr *frame, v Value) (string, *crc32.Table) {
	p, _ := v.(*Value)
	if p == nil {
		return "ieee", crc32.IEEETable
	}
	a := (*p).(Array)
	var tab crc32.Table
	for i := range tab {
		tab[i] = uint32(a[i].(*term.Term).C)
	}
	switch tab[1] {
	case crc32.IEEETable[1]:
		return "ieee", crc32.IEEETable
	case crc32.MakeTable(crc32.Castagnoli)[1]:
		return "castagnoli", crc32.MakeTable(crc32.Castagnoli)
	}
	return fmt.Sprintf("tab%x", tab[1]), &tab
}

// crcOf computes a CRC natively for concrete bytes, else an uninterpreted function of the bytes.
func crcOf(fr *frame, name string, tab *crc32.Table, init *term.Term, data []*term.Term) Value {
	if b, ok := allConst(data); ok && init.IsConst() {
		return term.Const(32, uint64(crc32.Update(uint32(init.C), tab, b)))
	}
	fr.m.StubsHit["uf:crc32"]++
	args := append([]*term.Term{init}, data...)
	return term.UF(fmt.Sprintf("crc32_%s_%d", name, len(data)), 32, args)
}

// ---------------------------------------------------------------------------
// vsym_* harness API

func (m *Machine) callVsym(caller *frame, fn *ssa.Function, args []Value) (Value, bool) {
	name := fn.Name()
	if !strings.HasPrefix(name, "vsym_") {
		return nil, false
	}
	fr := &frame{m: m, caller: caller, fn: fn}
	if caller != nil {
		fr.curPos = caller.curPos
	}
	str := func(i int) string { return fr.concStr(args[i], "vsym name") }
	switch name {
	case "vsym_Param":
		k := str(0)
		v, ok := m.Params[k]
		if !ok {
			m.unsupported("vsym_Param(%q): no such instance parameter", k)
		}
		return tInt(int64(v)), true
	case "vsym_Bool":
		return m.NewInput(str(0), 0), true
	case "vsym_Int8", "vsym_Uint8":
		return m.NewInput(str(0), 8), true
	case "vsym_Int16", "vsym_Uint16":
		return m.NewInput(str(0), 16), true
	case "vsym_Int32", "vsym_Uint32":
		return m.NewInput(str(0), 32), true
	case "vsym_Int64", "vsym_Uint64", "vsym_Int":
		return m.NewInput(str(0), 64), true
	case "vsym_Bytes":
		n := int(fr.conc(args[1], "vsym_Bytes length"))
		return m.NewBytes(str(0), n), true
	case "vsym_String":
		n := int(fr.conc(args[1], "vsym_String length"))
		bs := m.NewBytes(str(0), n)
		ts := make([]*term.Term, n)
		for i, b := range bs {
			ts[i] = b.(*term.Term)
		}
		return mkStr(ts), true
	case "vsym_Assume":
		m.Assume(args[0].(*term.Term))
		return nil, true
	case "vsym_Assert":
		m.Assert(args[0].(*term.Term), str(1))
		return nil, true
	case "vsym_Known":
		m.pendingKnow = append(m.pendingKnow, knownPred{str(0), args[1].(*term.Term)})
		return nil, true
	case "vsym_Reach":
		m.reached[str(0)] = true
		return nil, true
	case "vsym_Choose":
		n := int(fr.conc(args[1], "vsym_Choose n"))
		t := m.NewInput(str(0), 64)
		if !m.ConcOn {
			m.Assume(term.Cmp(term.OUlt, t, term.Const(64, uint64(n))))
		}
		return tInt(m.Concretize(t, "vsym_Choose")), true
	case "vsym_Concrete":
		return tInt(fr.conc(args[0], "vsym_Concrete")), true
	case "vsym_Observe":
		t := args[1].(*term.Term)
		if t.IsConst() {
			m.observed = append(m.observed, fmt.Sprintf("%s=%d", str(0), t.Signed()))
		} else {
			m.observed = append(m.observed, fmt.Sprintf("%s=<sym>", str(0)))
		}
		return nil, true
	case "vsym_ObserveBytes":
		bs := bytesOf(args[1])
		if b, ok := allConst(bs); ok {
			m.observed = append(m.observed, fmt.Sprintf("%s=%x", str(0), b))
		} else {
			m.observed = append(m.observed, fmt.Sprintf("%s=<sym %d>", str(0), len(bs)))
		}
		return nil, true
	case "vsym_AllocBudget":
		m.allocBudget = fr.conc(args[0], "vsym_AllocBudget")
		return nil, true
	case "vsym_PanicOK":
		m.panicOK = true
		return nil, true
	case "vsym_Exit":
		panic(abort{abExit, "vsym_Exit"})
	case "vsym_Go", "vsym_Spawn":
		m.spawnT(fr, fr.curPos, args[0], nil, true)
		return nil, true
	case "vsym_Yield":
		m.yield()
		return nil, true
	case "vsym_Event":
		// a named scheduling point: other threads may run before it; the global order of events
		// is recorded so that a native replay can follow it
		m.yield()
		m.events = append(m.events, str(0))
		return nil, true
	case "vsym_ExploreSchedules":
		m.explore = true
		return nil, true
	case "vsym_SettleMillis":
		return nil, true
	case "vsym_DelayBound":
		m.delayBound = int(fr.conc(args[0], "vsym_DelayBound"))
		return nil, true
	case "vsym_DaemonsFirst":
		m.daemonsFirst = true
		return nil, true
	case "vsym_Await":
		// block the calling thread until the (side-effect free, non-blocking) predicate holds
		pred := args[0]
		self := fr
		m.blockUntil(func() bool {
			r := m.call(self, self.curPos, pred, nil)
			t, ok := r.(*term.Term)
			if !ok || !t.IsConst() {
				m.unsupported("vsym_Await: predicate must evaluate to a constant")
			}
			return t.C == 1
		})
		return nil, true
	case "vsym_FireTimer":
		// deliver a tick on the k-th timer/ticker created so far (virtual time: timers fire
		// only when the harness says so); the second argument is the period in ms, which only the
		// native runtime uses (it sleeps that long and lets the real ticker fire)
		k := int(args[0].(*term.Term).Signed())
		if k < 0 {
			k = len(m.timers) - 1 // the timer created last
		}
		if m.fireTimer(k) {
			return term.True, true
		}
		return term.False, true
	case "vsym_Settle":
		// wait until every other logical thread is blocked or finished (quiescence)
		self := m.cur
		m.blockUntil(func() bool {
			for _, t := range m.threads {
				if t == self || t.done {
					continue
				}
				if t.ready == nil || t.ready() {
					return false
				}
			}
			return true
		})
		return nil, true
	case "vsym_FieldInt64":
		iv, ok := args[0].(Iface)
		if !ok || iv.T == nil {
			m.unsupported("vsym_FieldInt64: not a struct value")
		}
		st, ok := iv.T.Underlying().(*types.Struct)
		sv, ok2 := iv.V.(Struct)
		if !ok || !ok2 {
			m.unsupported("vsym_FieldInt64: not a struct value")
		}
		name := str(1)
		for i := 0; i < st.NumFields(); i++ {
			if st.Field(i).Name() == name {
				t := sv[i].(*term.Term)
				if t.W < 64 {
					t = term.SExt(t, 64)
				}
				return t, true
			}
		}
		m.unsupported("vsym_FieldInt64: no field %s", name)
		return nil, true
	case "vsym_PreemptionBound":
		m.preemptBound = int(fr.conc(args[0], "vsym_PreemptionBound"))
		return nil, true
	case "vsym_ExploreEvents":
		m.explore, m.coarse = true, true
		return nil, true
	case "vsym_Join":
		m.joinAll()
		return nil, true
	case "vsym_Override":
		m.overrides[str(0)] = ifaceInner(args[1])
		return nil, true
	case "vsym_Symbolic":
		return term.Bool(!m.ConcOn), true
	case "vsym_IsConst":
		t := args[0].(*term.Term)
		return term.Bool(t.IsConst()), true
	case "vsym_Ite64":
		return term.Ite(args[0].(*term.Term), args[1].(*term.Term), args[2].(*term.Term)), true
	case "vsym_And":
		return term.And(args[0].(*term.Term), args[1].(*term.Term)), true
	case "vsym_Or":
		return term.Or(args[0].(*term.Term), args[1].(*term.Term)), true
	case "vsym_Implies":
		return term.Or(term.Not(args[0].(*term.Term)), args[1].(*term.Term)), true
	case "vsym_BytesEq":
		return strEq(mkStr(bytesOf(args[0])), mkStr(bytesOf(args[1]))), true
	case "vsym_StrEq":
		return strEq(args[0], args[1]), true
	case "vsym_Tick":
		return m.tick(), true
	}
	m.unsupported("unknown harness function %s", name)
	return nil, true
}

func ifaceInner(v Value) Value {
	if i, ok := v.(Iface); ok {
		return i.V
	}
	return v
}
