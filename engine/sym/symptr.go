package sym

import (
	"sort"

	"gosym/term"
)

// SymElemPtr is the address of arr[idx] for a symbolic, already bounds-checked index into
// an array or slice of scalars. Loads become ite chains, stores update every cell.
type SymElemPtr struct {
	arr []Value
	idx *term.Term // 64-bit
}

func scalarCells(a []Value) bool {
	if len(a) == 0 || len(a) > 4096 {
		return false
	}
	_, ok := a[0].(*term.Term)
	return ok
}

func (p *SymElemPtr) load() Value {
	n := len(p.arr)
	w := p.arr[0].(*term.Term).W
	allConst := true
	for _, c := range p.arr {
		if !c.(*term.Term).IsConst() {
			allConst = false
			break
		}
	}
	if allConst {
		groups := map[uint64][]int{}
		for i, c := range p.arr {
			v := c.(*term.Term).C
			groups[v] = append(groups[v], i)
		}
		vals := make([]uint64, 0, len(groups))
		for v := range groups {
			vals = append(vals, v)
		}
		sort.Slice(vals, func(i, j int) bool {
			if len(groups[vals[i]]) != len(groups[vals[j]]) {
				return len(groups[vals[i]]) > len(groups[vals[j]])
			}
			return vals[i] < vals[j]
		})
		res := term.Const(w, vals[0])
		for _, v := range vals[1:] {
			cond := term.False
			for _, i := range groups[v] {
				cond = term.Or(cond, term.Eq(p.idx, term.Const(64, uint64(i))))
			}
			res = term.Ite(cond, term.Const(w, v), res)
		}
		return res
	}
	res := p.arr[n-1].(*term.Term)
	for i := n - 2; i >= 0; i-- {
		res = term.Ite(term.Eq(p.idx, term.Const(64, uint64(i))), p.arr[i].(*term.Term), res)
	}
	return res
}

func (p *SymElemPtr) storeVal(m *Machine, v Value) {
	nv := v.(*term.Term)
	for i := range p.arr {
		old := p.arr[i].(*term.Term)
		m.store(&p.arr[i], term.Ite(term.Eq(p.idx, term.Const(64, uint64(i))), nv, old))
	}
}

