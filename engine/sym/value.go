package sym

import (
	"fmt"
	"go/types"
	"strings"

	"golang.org/x/tools/go/ssa"
	"gosym/term"
)

// Value is any interpreter value:
//
//	*term.Term   bool and every integer kind (bit-vector of the Go width)
//	float64      float32/float64 (concrete only)
//	string       a string whose bytes are all concrete
//	SymStr       a string with at least one symbolic byte (concrete length)
//	*Value       pointer (nil pointer = (*Value)(nil))
//	Struct/Array aggregate values (copied on load/store)
//	[]Value      slice (aliasing by Go's own slice semantics; concrete len/cap)
//	*Map, *Chan  reference types
//	Iface        interface value (T==nil: nil interface)
//	*ssa.Function, *Closure, *ssa.Builtin  function values
//	Tuple        multiple results
//	Poison       result of an unsupported operation during package initialisation
type Value = any

type Struct []Value
type Array []Value
type Tuple []Value
type SymStr []*term.Term

type Iface struct {
	T types.Type
	V Value
}

type Closure struct {
	Fn  *ssa.Function
	Env []Value
}

type Poison struct{ Why string }

// Opaque carries a host-side object through the interpreter (abstract codec blobs etc.).
type Opaque struct {
	Kind string
	V    any
}

type mapEntry struct {
	k, v    Value
	deleted bool
}

type Map struct {
	entries []*mapEntry
	index   map[string]int // canonical concrete key → entry index
	n       int
}

type Chan struct {
	cap    int
	buf    []Value
	closed bool
	elem   types.Type
	// waiting senders (unbuffered / full): values offered
	sendq []*chanWaiter
	recvq []*chanWaiter
}

type chanWaiter struct {
	t    *Thread
	v    Value
	done bool
	ok   bool
	grp  *selGroup
}

type selGroup struct{ fired bool }

type rangeIter interface{ next(m *Machine) Tuple }

func isNilValue(v Value) bool {
	switch v := v.(type) {
	case nil:
		return true
	case *Value:
		return v == nil
	case []Value:
		return v == nil
	case *Map:
		return v == nil
	case *Chan:
		return v == nil
	case Iface:
		return v.T == nil
	case *Closure:
		return v == nil
	case *ssa.Function:
		return v == nil
	}
	return false
}

func basicWidth(b *types.Basic) (w uint8, signed bool, ok bool) {
	switch b.Kind() {
	case types.Bool, types.UntypedBool:
		return 0, false, true
	case types.Int8:
		return 8, true, true
	case types.Int16:
		return 16, true, true
	case types.Int32, types.UntypedRune:
		return 32, true, true
	case types.Int64, types.Int, types.UntypedInt:
		return 64, true, true
	case types.Uint8:
		return 8, false, true
	case types.Uint16:
		return 16, false, true
	case types.Uint32:
		return 32, false, true
	case types.Uint64, types.Uint, types.Uintptr:
		return 64, false, true
	}
	return 0, false, false
}

// intInfo returns the width and signedness of an integer (or bool) type.
func intInfo(t types.Type) (w uint8, signed bool, ok bool) {
	if b, isB := t.Underlying().(*types.Basic); isB {
		return basicWidth(b)
	}
	return 0, false, false
}

func isFloat(t types.Type) bool {
	b, ok := t.Underlying().(*types.Basic)
	return ok && b.Info()&types.IsFloat != 0
}

func isString(t types.Type) bool {
	b, ok := t.Underlying().(*types.Basic)
	return ok && b.Info()&types.IsString != 0
}

func (m *Machine) zero(t types.Type) Value {
	switch u := t.Underlying().(type) {
	case *types.Basic:
		if w, _, ok := basicWidth(u); ok {
			if w == 0 {
				return term.False
			}
			return term.Const(w, 0)
		}
		switch {
		case u.Info()&types.IsFloat != 0:
			return float64(0)
		case u.Info()&types.IsString != 0:
			return ""
		case u.Kind() == types.UnsafePointer:
			return (*Value)(nil)
		case u.Kind() == types.UntypedNil:
			return nil
		case u.Info()&types.IsComplex != 0:
			return complex128(0)
		}
		panic(fmt.Sprintf("zero: basic %v", u))
	case *types.Pointer:
		return (*Value)(nil)
	case *types.Struct:
		s := make(Struct, u.NumFields())
		for i := range s {
			s[i] = m.zero(u.Field(i).Type())
		}
		return s
	case *types.Array:
		a := make(Array, u.Len())
		if u.Len() > 0 {
			z := m.zero(u.Elem())
			_, agg1 := z.(Struct)
			_, agg2 := z.(Array)
			for i := range a {
				if agg1 || agg2 {
					a[i] = copyVal(z)
				} else {
					a[i] = z
				}
			}
		}
		return a
	case *types.Slice:
		return []Value(nil)
	case *types.Map:
		return (*Map)(nil)
	case *types.Chan:
		return (*Chan)(nil)
	case *types.Signature:
		return (*Closure)(nil)
	case *types.Interface:
		return Iface{}
	case *types.Tuple:
		if u.Len() == 1 {
			return m.zero(u.At(0).Type())
		}
		tup := make(Tuple, u.Len())
		for i := range tup {
			tup[i] = m.zero(u.At(i).Type())
		}
		return tup
	}
	panic(fmt.Sprintf("zero: unexpected type %T %v", t, t))
}

// copyVal makes a copy of aggregates (value semantics for structs and arrays).
func copyVal(v Value) Value {
	switch v := v.(type) {
	case Struct:
		c := make(Struct, len(v))
		for i, x := range v {
			c[i] = copyVal(x)
		}
		return c
	case Array:
		c := make(Array, len(v))
		for i, x := range v {
			c[i] = copyVal(x)
		}
		return c
	}
	return v
}

// strLen returns the length of a string value.
func strLen(v Value) int {
	switch s := v.(type) {
	case string:
		return len(s)
	case SymStr:
		return len(s)
	}
	panic(fmt.Sprintf("strLen: %T", v))
}

func strBytes(v Value) []*term.Term {
	switch s := v.(type) {
	case string:
		r := make([]*term.Term, len(s))
		for i := 0; i < len(s); i++ {
			r[i] = term.Const(8, uint64(s[i]))
		}
		return r
	case SymStr:
		return s
	}
	panic(fmt.Sprintf("strBytes: %T", v))
}

// mkStr normalises a byte-term vector into a string value.
func mkStr(b []*term.Term) Value {
	for _, t := range b {
		if !t.IsConst() {
			return SymStr(append([]*term.Term(nil), b...))
		}
	}
	var sb strings.Builder
	for _, t := range b {
		sb.WriteByte(byte(t.C))
	}
	return sb.String()
}

// canonKey returns a canonical encoding of a fully concrete, hashable value.
func canonKey(v Value) (string, bool) {
	switch v := v.(type) {
	case *term.Term:
		if v.IsConst() {
			return fmt.Sprintf("i%d:%d", v.W, v.C), true
		}
		return "", false
	case string:
		return "s" + v, true
	case SymStr:
		return "", false
	case float64:
		return fmt.Sprintf("f%v", v), true
	case LazyFloat:
		return "", false
	case *Value:
		return fmt.Sprintf("p%p", v), true
	case *Chan:
		return fmt.Sprintf("c%p", v), true
	case Struct:
		var sb strings.Builder
		sb.WriteString("{")
		for _, f := range v {
			k, ok := canonKey(f)
			if !ok {
				return "", false
			}
			fmt.Fprintf(&sb, "%d:%s,", len(k), k)
		}
		return sb.String() + "}", true
	case Array:
		var sb strings.Builder
		sb.WriteString("[")
		for _, f := range v {
			k, ok := canonKey(f)
			if !ok {
				return "", false
			}
			fmt.Fprintf(&sb, "%d:%s,", len(k), k)
		}
		return sb.String() + "]", true
	case Iface:
		if v.T == nil {
			return "nil", true
		}
		k, ok := canonKey(v.V)
		if !ok {
			return "", false
		}
		return "I" + types.TypeString(v.T, nil) + "|" + k, true
	case nil:
		return "nil", true
	}
	return "", false
}

// describe renders a value for diagnostics and observation dumps.
func describe(v Value) string {
	switch v := v.(type) {
	case nil:
		return "nil"
	case *term.Term:
		if v.IsConst() {
			if v.W == 0 {
				return fmt.Sprint(v.C == 1)
			}
			return fmt.Sprint(v.Signed())
		}
		return "<sym" + fmt.Sprint(v.W) + ">"
	case string:
		return fmt.Sprintf("%q", v)
	case SymStr:
		return fmt.Sprintf("<symstr %d>", len(v))
	case float64:
		return fmt.Sprint(v)
	case LazyFloat:
		return "<lazyfloat>"
	case *Value:
		if v == nil {
			return "nilptr"
		}
		return "&" + describe(*v)
	case Struct:
		parts := make([]string, len(v))
		for i, f := range v {
			if _, isPtr := f.(*Value); isPtr {
				parts[i] = "ptr"
			} else {
				parts[i] = describe(f)
			}
		}
		return "{" + strings.Join(parts, " ") + "}"
	case Array:
		parts := make([]string, len(v))
		for i, f := range v {
			parts[i] = describe(f)
		}
		return "[" + strings.Join(parts, " ") + "]"
	case []Value:
		if len(v) > 16 {
			return fmt.Sprintf("slice(len %d)", len(v))
		}
		parts := make([]string, len(v))
		for i, f := range v {
			parts[i] = describe(f)
		}
		return "[]{" + strings.Join(parts, " ") + "}"
	case Iface:
		if v.T == nil {
			return "nil-iface"
		}
		return "iface(" + types.TypeString(v.T, nil) + ")"
	case Tuple:
		parts := make([]string, len(v))
		for i, f := range v {
			parts[i] = describe(f)
		}
		return "(" + strings.Join(parts, ", ") + ")"
	case Poison:
		return "poison(" + v.Why + ")"
	}
	return fmt.Sprintf("%T", v)
}
