package sym

import (
	"fmt"
	"go/token"
	"go/types"
	"os"
	"sort"
	"strings"

	"golang.org/x/tools/go/ssa"
	"gosym/smt"
	"gosym/term"
)

type abortKind int

const (
	abPathEnd     abortKind = iota // assumption false / infeasible: silently ends the path
	abUnsupported                  // construct the engine cannot encode → INCONCLUSIVE
	abViolation                    // an assertion failed (recorded) → stop this path
	abKilled                       // logical thread killed at the end of a run
	abLimit                        // step / decision / concretisation cap reached → INCONCLUSIVE
	abDeadlock                     // every logical thread blocked
	abExit                         // harness asked to end the path normally
)

type abort struct {
	kind abortKind
	msg  string
}

// targetPanic is a panic of the interpreted program.
type targetPanic struct {
	v    Value
	kind string // "explicit", "nil-deref", "index", "slice-bounds", "div-zero", "type-assert", "makeslice", ...
	pos  string
	fn   string
}

func (p targetPanic) String() string {
	return fmt.Sprintf("panic(%s) in %s at %s: %s", p.kind, p.fn, p.pos, describe(p.v))
}

type WorkItem struct {
	Prefix []int64
	Excl   []int64 // values excluded for the decision following Prefix (concretisation alternatives)
	HasExc bool
	Model  map[string]uint64 // an assignment of the inputs satisfying the prefix's path condition (nil: unknown)
}

type Input struct {
	Name string
	T    *term.Term
}

type Violation struct {
	Label  string
	Detail string
	Model  map[string]uint64
	Path   []int64
	Trace  []string
}

type KnownHit struct {
	ID, Label string
	Model     map[string]uint64
	Path      []int64
}

type Limits struct {
	MaxSteps     int
	MaxDecisions int
	ConcLimit    int
}

type PathResult struct {
	Outcome    string // ok | pathend | panic | violation | unsupported | limit | deadlock
	Msg        string
	Alts       []WorkItem
	Path       []int64
	NewDecs    int // decisions decided by the solver on this run (not replayed)
	SymDecs    int // decisions on this run whose condition was symbolic
	Violation  *Violation
	Known      []KnownHit
	Reached    []string
	Unknowns   int
	Steps      int
	Panic      *targetPanic
	Observed   []string
	OkModel    map[string]uint64 // a model of the completed path's condition (when WantOkModel)
	PanicModel map[string]uint64
	Events     []string // labels passed to vsym_Event, in execution order (native replay follows this order)
}

type knownPred struct {
	id   string
	pred *term.Term
}

type undoEntry struct {
	p   *Value
	old Value
}

type mapUndo struct {
	m       *Map
	entries []*mapEntry
	index   map[string]int
	n       int
}

type Machine struct {
	Prog    *ssa.Program
	Fset    *token.FileSet
	Solver  *smt.Solver
	Limits  Limits
	Params  map[string]int
	Known   map[string]bool // accepted known-finding ids
	Trace   bool
	Conc    map[string]uint64 // concrete mode: values for nondet inputs (nil = symbolic mode)
	Env     map[string]string // os.Getenv
	InitAllow func(path string) bool
	InitExtra []string // packages whose initialiser is run explicitly (their importers may be blocked)
	Tainted map[string]string // packages whose initialiser could not be completed
	TaintOK map[string]bool   // tainted packages whose zero-valued globals may be read anyway (stated in the spec)
	IntTokens bool            // fmt %d of a symbolic integer yields an opaque token instead of forking
	ConcOn  bool
	WantOkModel bool // ask the solver for a model of every path that completes normally
	globals map[*ssa.Global]*Value

	inInit  bool
	fmtLax  bool
	initPkg map[*ssa.Package]bool

	// statistics that persist across runs
	FuncsEntered map[*ssa.Function]int
	StubsHit     map[string]int

	// per run
	prefix      []int64
	excl        []int64
	hasExcl     bool
	path        []int64
	alts        []WorkItem
	undo        []undoEntry
	mapUndos    []mapUndo
	nondetSeq   map[string]int
	inputs      []Input
	steps       int
	newDecs     int
	symDecs     int
	unknowns    int
	reached     map[string]bool
	pendingKnow []knownPred
	knownHits   []KnownHit
	violation   *Violation
	observed    []string
	allocBudget int64
	panicOK     bool
	overrides   map[string]Value
	curFrame    *frame // innermost frame (tracing only)
	preemptBound, preemptions int // context bound: at most preemptBound switches away from a runnable thread (0 = unbounded)
	daemonsFirst bool // see switchAway
	delayBound  int  // vsym_DelayBound: at most this many non-default scheduling picks per path (0 = unbounded)
	delays      int
	coarse      bool // preempt only at vsym_Event/vsym_Yield and when a thread blocks
	events      []string
	sideMutex   map[*Value]*mutexState
	sideWG      map[*Value]*wgState
	sideSyncMap map[*Value]*Map
	sideCond    map[*Value]*condState
	onceBase    map[*Value]bool
	onceRun     map[*Value]bool
	clock       *term.Term
	clockN      int
	kvTokens    int
	tokens      map[string]tokenVal
	tokenByKey  map[string]string
	timers      []*Chan
	afterFuncs  []Value

	curModel  map[string]uint64
	haveModel bool
	modelGen  int
	modelSeq  int

	// threads
	threads  []*Thread
	cur      *Thread
	explore  bool
	killing  bool
	finalAb  *abort
	finalPan *targetPanic
	doneCh   chan struct{}
	freshID  int
}

func NewMachine(prog *ssa.Program, solver *smt.Solver) *Machine {
	m := &Machine{
		Prog:         prog,
		Fset:         prog.Fset,
		Solver:       solver,
		Limits:       Limits{MaxSteps: 20_000_000, MaxDecisions: 4000, ConcLimit: 64},
		globals:      map[*ssa.Global]*Value{},
		initPkg:      map[*ssa.Package]bool{},
		FuncsEntered: map[*ssa.Function]int{},
		StubsHit:     map[string]int{},
		onceBase:     map[*Value]bool{},
		Known:        map[string]bool{},
		Env:          map[string]string{},
		Tainted:      map[string]string{},
	}
	return m
}

func (m *Machine) posStr(p token.Pos) string {
	if p == token.NoPos {
		return "?"
	}
	ps := m.Fset.Position(p)
	f := ps.Filename
	if i := strings.Index(f, "/repo/"); i >= 0 {
		f = f[i+6:]
	} else if i := strings.Index(f, "/pkg/mod/"); i >= 0 {
		f = f[i+9:]
	} else if i := strings.Index(f, "/src/"); i >= 0 {
		f = f[i+5:]
	}
	return fmt.Sprintf("%s:%d", f, ps.Line)
}

func (m *Machine) unsupported(format string, args ...any) {
	panic(abort{abUnsupported, fmt.Sprintf(format, args...)})
}

// store writes through a pointer, remembering the old contents so that the run can be undone.
func (m *Machine) store(p *Value, v Value) {
	m.undo = append(m.undo, undoEntry{p, *p})
	*p = v
}

func (m *Machine) logMap(mp *Map) {
	idx := make(map[string]int, len(mp.index))
	for k, v := range mp.index {
		idx[k] = v
	}
	ents := make([]*mapEntry, len(mp.entries))
	for i, e := range mp.entries {
		c := *e
		ents[i] = &c
	}
	m.mapUndos = append(m.mapUndos, mapUndo{mp, ents, idx, mp.n})
}

func (m *Machine) rollback() {
	for i := len(m.undo) - 1; i >= 0; i-- {
		*m.undo[i].p = m.undo[i].old
	}
	m.undo = m.undo[:0]
	for i := len(m.mapUndos) - 1; i >= 0; i-- {
		u := m.mapUndos[i]
		u.m.entries, u.m.index, u.m.n = u.entries, u.index, u.n
	}
	m.mapUndos = m.mapUndos[:0]
}

// ---------------------------------------------------------------------------
// decisions

func (m *Machine) checkLimits() {
	if len(m.path) > m.Limits.MaxDecisions {
		panic(abort{abLimit, fmt.Sprintf("unwind: more than %d decisions on one path", m.Limits.MaxDecisions)})
	}
}

// Decide forks on a boolean condition.
func (m *Machine) oldDecide(c *term.Term) bool {
	if c.IsConst() {
		return c.C == 1
	}
	if m.ConcOn {
		panic(abort{abUnsupported, "symbolic condition in concrete mode"})
	}
	m.checkLimits()
	m.symDecs++
	i := len(m.path)
	if i < len(m.prefix) {
		v := m.prefix[i] != 0
		m.path = append(m.path, m.prefix[i])
		if v {
			m.Solver.Assert(c)
		} else {
			m.Solver.Assert(term.Not(c))
		}
		return v
	}
	m.newDecs++
	rt, _ := m.Solver.Check(c, nil)
	if rt == smt.Unknown {
		m.unknowns++
	}
	if rt == smt.Unsat {
		m.path = append(m.path, 0)
		m.Solver.Assert(term.Not(c))
		return false
	}
	nc := term.Not(c)
	rf, _ := m.Solver.Check(nc, nil)
	if rf == smt.Unknown {
		m.unknowns++
	}
	if rf == smt.Unsat {
		m.path = append(m.path, 1)
		m.Solver.Assert(c)
		return true
	}
	alt := append(append([]int64(nil), m.path...), 0)
	m.alts = append(m.alts, WorkItem{Prefix: alt})
	m.path = append(m.path, 1)
	m.Solver.Assert(c)
	return true
}

// Choose is an n-way decision that does not depend on data (schedules, shapes).
func (m *Machine) oldChoose(n int) int {
	if n <= 1 {
		return 0
	}
	m.checkLimits()
	i := len(m.path)
	if i < len(m.prefix) {
		m.path = append(m.path, m.prefix[i])
		return int(m.prefix[i])
	}
	for k := n - 1; k >= 1; k-- {
		alt := append(append([]int64(nil), m.path...), int64(k))
		m.alts = append(m.alts, WorkItem{Prefix: alt})
	}
	m.path = append(m.path, 0)
	return 0
}

// Concretize enumerates the feasible values of a 64-bit term (one per path).
func (m *Machine) oldConcretize(t *term.Term, what string) int64 {
	if t.IsConst() {
		return t.Signed()
	}
	if m.ConcOn {
		panic(abort{abUnsupported, "symbolic value in concrete mode"})
	}
	m.checkLimits()
	m.symDecs++
	i := len(m.path)
	if i < len(m.prefix) {
		v := m.prefix[i]
		m.path = append(m.path, v)
		m.Solver.Assert(term.Eq(t, term.Const(t.W, uint64(v))))
		return v
	}
	m.newDecs++
	var excl []int64
	if m.hasExcl && i == len(m.prefix) {
		excl = m.excl
		m.hasExcl = false
	}
	cond := term.True
	for _, e := range excl {
		cond = term.And(cond, term.Not(term.Eq(t, term.Const(t.W, uint64(e)))))
	}
	res, vals := m.Solver.Check(cond, []*term.Term{t})
	if res == smt.Unknown {
		m.unknowns++
		panic(abort{abLimit, "concretise: solver unknown at " + what})
	}
	if res == smt.Unsat {
		panic(abort{abPathEnd, "concretise: no further value"})
	}
	v := term.Const(t.W, vals[0]).Signed()
	// is there another value?
	cond2 := term.And(cond, term.Not(term.Eq(t, term.Const(t.W, uint64(v)))))
	r2, _ := m.Solver.Check(cond2, nil)
	if r2 != smt.Unsat {
		if len(excl)+1 >= m.Limits.ConcLimit {
			panic(abort{abLimit, fmt.Sprintf("concretise: more than %d values at %s", m.Limits.ConcLimit, what)})
		}
		ne := append(append([]int64(nil), excl...), v)
		m.alts = append(m.alts, WorkItem{Prefix: append([]int64(nil), m.path...), Excl: ne, HasExc: true})
	}
	m.path = append(m.path, v)
	m.Solver.Assert(term.Eq(t, term.Const(t.W, uint64(v))))
	return v
}

func (m *Machine) model() map[string]uint64 {
	want := make([]*term.Term, len(m.inputs))
	for i, in := range m.inputs {
		want[i] = in.T
	}
	res, vals := m.Solver.Check(nil, want)
	if res != smt.Sat {
		return nil
	}
	mod := map[string]uint64{}
	for i, in := range m.inputs {
		mod[in.Name] = vals[i]
	}
	return mod
}

func (m *Machine) modelWith(extra *term.Term) (smt.Result, map[string]uint64) {
	want := make([]*term.Term, len(m.inputs))
	for i, in := range m.inputs {
		want[i] = in.T
	}
	res, vals := m.Solver.Check(extra, want)
	if res != smt.Sat {
		return res, nil
	}
	mod := map[string]uint64{}
	for i, in := range m.inputs {
		mod[in.Name] = vals[i]
	}
	return res, mod
}

// Assume restricts the path to states satisfying c.
func (m *Machine) oldAssume(c *term.Term) {
	if c.IsConst() {
		if c.C == 0 {
			panic(abort{abPathEnd, "assume false"})
		}
		return
	}
	res, _ := m.Solver.Check(c, nil)
	if res == smt.Unsat {
		panic(abort{abPathEnd, "assume infeasible"})
	}
	if res == smt.Unknown {
		m.unknowns++
	}
	m.Solver.Assert(c)
}

// Assert checks c on the current path. Known-finding classes registered by vsym_Known
// since the previous Assert are honoured when listed in the known-findings file.
func (m *Machine) oldAssert(c *term.Term, label string) {
	known := m.pendingKnow
	m.pendingKnow = nil
	if c.IsTrue() {
		return
	}
	if m.ConcOn {
		m.observed = append(m.observed, "assert-fail:"+label)
		panic(abort{abExit, "assert failed in concrete mode"})
	}
	notc := term.Not(c)
	rest := notc
	for _, k := range known {
		if !m.Known[k.id] {
			continue
		}
		res, mod := m.modelWith(term.And(notc, k.pred))
		if res == smt.Sat {
			m.knownHits = append(m.knownHits, KnownHit{ID: k.id, Label: label, Model: mod, Path: append([]int64(nil), m.path...)})
		} else if res == smt.Unknown {
			m.unknowns++
		}
		rest = term.And(rest, term.Not(k.pred))
	}
	res, mod := m.modelWith(rest)
	switch res {
	case smt.Sat:
		m.violation = &Violation{Label: label, Model: mod, Path: append([]int64(nil), m.path...)}
		panic(abort{abViolation, label})
	case smt.Unknown:
		m.unknowns++
		panic(abort{abLimit, "assert " + label + ": solver unknown"})
	}
	// continue with the states in which the assertion holds
	if c.IsFalse() {
		panic(abort{abPathEnd, "assert: only known-finding states reach here"})
	}
	if len(known) > 0 {
		r2, _ := m.Solver.Check(c, nil)
		if r2 == smt.Unsat {
			panic(abort{abPathEnd, "assert: only known-finding states reach here"})
		}
	}
	m.Solver.Assert(c)
}

// ---------------------------------------------------------------------------
// nondeterministic inputs

func (m *Machine) freshName(name string) string {
	k := m.nondetSeq[name]
	m.nondetSeq[name] = k + 1
	return fmt.Sprintf("%s#%d", name, k)
}

func (m *Machine) NewInput(name string, w uint8) *term.Term {
	full := m.freshName(name)
	return m.newInputNamed(full, w)
}

func (m *Machine) newInputNamed(full string, w uint8) *term.Term {
	if m.ConcOn {
		return term.Const(w, m.Conc[full])
	}
	t := term.Var(w, full)
	m.inputs = append(m.inputs, Input{full, t})
	return t
}

func (m *Machine) NewBytes(name string, n int) []Value {
	full := m.freshName(name)
	out := make([]Value, n)
	for i := 0; i < n; i++ {
		out[i] = m.newInputNamed(fmt.Sprintf("%s[%d]", full, i), 8)
	}
	return out
}

// ---------------------------------------------------------------------------
// running one path

func (m *Machine) resetRun(item WorkItem) {
	m.prefix, m.excl, m.hasExcl = item.Prefix, item.Excl, item.HasExc
	m.path = m.path[:0]
	m.alts = nil
	m.nondetSeq = map[string]int{}
	m.inputs = m.inputs[:0]
	m.steps, m.newDecs, m.symDecs, m.unknowns = 0, 0, 0, 0
	m.reached = map[string]bool{}
	m.pendingKnow, m.knownHits, m.violation = nil, nil, nil
	m.observed = nil
	m.allocBudget = 1 << 20
	m.panicOK = false
	m.overrides = map[string]Value{}
	m.events = nil
	m.sideMutex = map[*Value]*mutexState{}
	m.sideWG = map[*Value]*wgState{}
	m.sideSyncMap = map[*Value]*Map{}
	m.sideCond = map[*Value]*condState{}
	m.onceRun = map[*Value]bool{}
	m.clock, m.clockN = nil, 0
	m.tokens, m.timers, m.afterFuncs, m.kvTokens, m.tokenByKey = nil, nil, nil, 0, nil
	m.threads, m.cur, m.explore, m.killing = nil, nil, false, false
	m.coarse = false
	m.delayBound, m.delays = 0, 0
	m.daemonsFirst = false
	m.preemptBound, m.preemptions = 0, 0
	m.finalAb, m.finalPan = nil, nil
	m.freshID = 0
	m.Solver.Reset()
	if item.Model == nil && len(item.Prefix) == 0 && !item.HasExc {
		m.setModel(map[string]uint64{}) // every assignment satisfies the empty path condition
	} else {
		m.setModel(item.Model)
	}
}

// RunPath executes entry once along the decisions of item (extending them as needed).
func (m *Machine) RunPath(entry *ssa.Function, item WorkItem) (res PathResult) {
	m.resetRun(item)
	defer m.rollback()
	m.runMain(entry)
	res.Path = append([]int64(nil), m.path...)
	res.Alts = m.alts
	res.NewDecs, res.SymDecs, res.Unknowns, res.Steps = m.newDecs, m.symDecs, m.unknowns, m.steps
	res.Known = m.knownHits
	res.Observed = m.observed
	res.Events = append([]string(nil), m.events...)
	for k := range m.reached {
		res.Reached = append(res.Reached, k)
	}
	sort.Strings(res.Reached)
	switch {
	case m.finalPan != nil:
		res.Outcome = "panic"
		res.Panic = m.finalPan
		res.Msg = m.finalPan.String()
		if !m.ConcOn {
			if m.haveModel {
				res.PanicModel = m.curModel
			} else {
				res.PanicModel = m.model()
			}
		}
	case m.finalAb != nil:
		res.Msg = m.finalAb.msg
		switch m.finalAb.kind {
		case abPathEnd:
			res.Outcome = "pathend"
		case abUnsupported:
			res.Outcome = "unsupported"
		case abViolation:
			res.Outcome = "violation"
			res.Violation = m.violation
		case abLimit:
			res.Outcome = "limit"
		case abDeadlock:
			res.Outcome = "deadlock"
		case abExit:
			res.Outcome = "ok"
		default:
			res.Outcome = "unsupported"
		}
	default:
		res.Outcome = "ok"
	}
	if res.Outcome == "ok" && m.WantOkModel && !m.ConcOn {
		// a model of the whole path condition (inputs introduced late in the path included)
		res.OkModel = m.model()
	}
	return
}

func (m *Machine) tracef(format string, args ...any) {
	if m.Trace {
		fmt.Fprintf(os.Stderr, format, args...)
	}
}

func typeStr(t types.Type) string { return types.TypeString(t, nil) }
