package sym

import (
	"fmt"

	"gosym/smt"
	"gosym/term"
)

// The executor keeps one satisfying assignment ("current model") of the path condition.
// A new branch condition is first evaluated under it: the side it satisfies is feasible
// without a solver call, only the other side is queried. Work items carry the model the
// solver returned for their last decision, so a re-executed prefix costs no query at all.

func (m *Machine) setModel(mod map[string]uint64) {
	m.curModel = mod
	m.haveModel = mod != nil
	m.modelSeq++
	m.modelGen = m.modelSeq
}

func (m *Machine) evalModel(c *term.Term) (uint64, bool) {
	if !m.haveModel || c.ContainsUF() {
		return 0, false
	}
	return term.EvalCached(c, m.modelGen, m.curModel), true
}

// query asks the solver about pc ∧ extra and returns the model of all inputs when sat.
func (m *Machine) query(extra *term.Term) (smt.Result, map[string]uint64) {
	res, mod := m.modelWith(extra)
	if res == smt.Unknown {
		m.unknowns++
	}
	return res, mod
}

// Decide forks on a boolean condition.
func (m *Machine) Decide(c *term.Term) bool {
	if c.IsConst() {
		return c.C == 1
	}
	if m.ConcOn {
		panic(abort{abUnsupported, "symbolic condition in concrete mode"})
	}
	m.checkLimits()
	m.symDecs++
	i := len(m.path)
	if i < len(m.prefix) {
		v := m.prefix[i] != 0
		m.path = append(m.path, m.prefix[i])
		if v {
			m.Solver.Assert(c)
		} else {
			m.Solver.Assert(term.Not(c))
		}
		return v
	}
	m.newDecs++
	if m.Trace {
		m.tracef("DECIDE at %s: %s\n", m.curPosStr(), trunc(termKey(c), 160))
	}
	nc := term.Not(c)
	if v, ok := m.evalModel(c); ok {
		side := v == 1
		other := nc
		if !side {
			other = c
		}
		res, mod := m.query(other)
		if res != smt.Unsat {
			var av int64
			if !side {
				av = 1
			}
			m.alts = append(m.alts, WorkItem{Prefix: append(append([]int64(nil), m.path...), av), Model: mod})
			if m.Trace {
				m.tracef("FORK at %s\n", m.curPosStr())
			}
		}
		if side {
			m.path = append(m.path, 1)
			m.Solver.Assert(c)
		} else {
			m.path = append(m.path, 0)
			m.Solver.Assert(nc)
		}
		return side
	}
	// no usable model: ask about both sides
	rt, mt := m.query(c)
	if rt == smt.Unsat {
		m.path = append(m.path, 0)
		m.Solver.Assert(nc)
		return false
	}
	rf, mf := m.query(nc)
	if rf != smt.Unsat {
		m.alts = append(m.alts, WorkItem{Prefix: append(append([]int64(nil), m.path...), 0), Model: mf})
		if m.Trace {
			m.tracef("FORK at %s\n", m.curPosStr())
		}
	}
	if mt != nil {
		m.setModel(mt)
	} else {
		m.setModel(nil)
	}
	m.path = append(m.path, 1)
	m.Solver.Assert(c)
	return true
}

// Choose is an n-way decision that does not depend on data (schedules, shapes).
func (m *Machine) Choose(n int) int {
	if n <= 1 {
		return 0
	}
	m.checkLimits()
	i := len(m.path)
	if i < len(m.prefix) {
		m.path = append(m.path, m.prefix[i])
		return int(m.prefix[i])
	}
	for k := n - 1; k >= 1; k-- {
		alt := append(append([]int64(nil), m.path...), int64(k))
		m.alts = append(m.alts, WorkItem{Prefix: alt, Model: m.curModel})
	}
	m.path = append(m.path, 0)
	return 0
}

// Concretize enumerates the feasible values of a term (one per path).
func (m *Machine) Concretize(t *term.Term, what string) int64 {
	if t.IsConst() {
		return t.Signed()
	}
	if m.ConcOn {
		panic(abort{abUnsupported, "symbolic value in concrete mode"})
	}
	m.checkLimits()
	m.symDecs++
	i := len(m.path)
	if i < len(m.prefix) {
		v := m.prefix[i]
		m.path = append(m.path, v)
		m.Solver.Assert(term.Eq(t, term.Const(t.W, uint64(v))))
		return v
	}
	m.newDecs++
	if m.Trace {
		m.tracef("CONC %s at %s: %s\n", what, m.curPosStr(), trunc(termKey(t), 200))
	}
	var excl []int64
	if m.hasExcl && i == len(m.prefix) {
		excl = m.excl
		m.hasExcl = false
	}
	cond := term.True
	for _, e := range excl {
		cond = term.And(cond, term.Not(term.Eq(t, term.Const(t.W, uint64(e)))))
	}
	var v int64
	got := false
	if ok, isOK := m.evalModel(cond); isOK && ok == 1 {
		if tv, ok2 := m.evalModel(t); ok2 {
			v, got = term.Const(t.W, tv).Signed(), true
		}
	}
	if !got {
		res, vals := m.Solver.Check(cond, []*term.Term{t})
		if res == smt.Unknown {
			m.unknowns++
			panic(abort{abLimit, "concretise: solver unknown at " + what})
		}
		if res == smt.Unsat {
			panic(abort{abPathEnd, "concretise: no further value"})
		}
		v = term.Const(t.W, vals[0]).Signed()
	}
	eqv := term.Eq(t, term.Const(t.W, uint64(v)))
	cond2 := term.And(cond, term.Not(eqv))
	r2, mod2 := m.query(cond2)
	if r2 != smt.Unsat {
		if len(excl)+1 >= m.Limits.ConcLimit {
			panic(abort{abLimit, fmt.Sprintf("concretise: more than %d values at %s (term %s)", m.Limits.ConcLimit, what, trunc(termKey(t), 300))})
		}
		ne := append(append([]int64(nil), excl...), v)
		m.alts = append(m.alts, WorkItem{Prefix: append([]int64(nil), m.path...), Excl: ne, HasExc: true, Model: mod2})
	}
	m.path = append(m.path, v)
	m.Solver.Assert(eqv)
	if !got {
		// the current model may not satisfy t == v: refresh lazily
		if mv, ok := m.evalModel(eqv); !ok || mv != 1 {
			_, mod := m.query(nil)
			m.setModel(mod)
		}
	}
	return v
}

// Assume restricts the path to states satisfying c.
func (m *Machine) Assume(c *term.Term) {
	if c.IsConst() {
		if c.C == 0 {
			panic(abort{abPathEnd, "assume false"})
		}
		return
	}
	if m.ConcOn {
		panic(abort{abUnsupported, "symbolic assumption in concrete mode"})
	}
	if v, ok := m.evalModel(c); ok && v == 1 {
		m.Solver.Assert(c)
		return
	}
	res, mod := m.query(c)
	if res == smt.Unsat {
		panic(abort{abPathEnd, "assume infeasible"})
	}
	m.setModel(mod)
	m.Solver.Assert(c)
}

// Assert checks c on the current path. Known-finding classes registered by vsym_Known since
// the previous Assert are honoured when listed (status "known") in the known-findings file.
func (m *Machine) Assert(c *term.Term, label string) {
	known := m.pendingKnow
	m.pendingKnow = nil
	if c.IsTrue() {
		return
	}
	if m.ConcOn {
		m.observed = append(m.observed, "assert-fail:"+label)
		panic(abort{abExit, "assert failed in concrete mode"})
	}
	if !c.IsConst() {
		m.symDecs++
	}
	notc := term.Not(c)
	rest := notc
	for _, k := range known {
		if !m.Known[k.id] {
			continue
		}
		q := term.And(notc, k.pred)
		if v, ok := m.evalModel(q); ok && v == 1 {
			m.knownHits = append(m.knownHits, KnownHit{ID: k.id, Label: label, Model: m.curModel, Path: append([]int64(nil), m.path...)})
		} else if !q.IsFalse() {
			res, mod := m.query(q)
			if res == smt.Sat {
				m.knownHits = append(m.knownHits, KnownHit{ID: k.id, Label: label, Model: mod, Path: append([]int64(nil), m.path...)})
			}
		}
		rest = term.And(rest, term.Not(k.pred))
	}
	if v, ok := m.evalModel(rest); ok && v == 1 {
		m.violation = &Violation{Label: label, Model: m.curModel, Path: append([]int64(nil), m.path...)}
		panic(abort{abViolation, label})
	}
	if !rest.IsFalse() {
		res, mod := m.modelWith(rest)
		switch res {
		case smt.Sat:
			m.violation = &Violation{Label: label, Model: mod, Path: append([]int64(nil), m.path...)}
			panic(abort{abViolation, label})
		case smt.Unknown:
			m.unknowns++
			panic(abort{abLimit, "assert " + label + ": solver unknown"})
		}
	}
	// continue with the states in which the assertion holds
	if c.IsFalse() {
		panic(abort{abPathEnd, "assert: only known-finding states reach here"})
	}
	if v, ok := m.evalModel(c); ok && v == 1 {
		m.Solver.Assert(c)
		return
	}
	res, mod := m.query(c)
	if res == smt.Unsat {
		panic(abort{abPathEnd, "assert: only known-finding states reach here"})
	}
	m.setModel(mod)
	m.Solver.Assert(c)
}

func trunc(s string, n int) string {
	if len(s) > n {
		return s[:n] + "…"
	}
	return s
}

func (m *Machine) curPosStr() string {
	if m.curFrame != nil {
		return m.curFrame.fn.String() + " " + m.posStr(m.curFrame.curPos)
	}
	return "?"
}
