package sym

import (
	"go/types"
	"strings"
	"time"

	"golang.org/x/tools/go/ssa"
	"gosym/term"
)

// Model of time.Time: Struct{wall, ext, loc} with wall==1 marking a model-made instant whose
// ext field holds nanoseconds since the Unix epoch (a term). The zero Time keeps wall==0.

func mkTime(ns *term.Term) Value {
	return Struct{term.Const(64, 1), ns, (*Value)(nil)}
}

func timeNS(fr *frame, v Value) *term.Term {
	s := v.(Struct)
	w := s[0].(*term.Term)
	if w.IsConst() && w.C == 0 {
		// zero time.Time: year 1; map to a very negative instant
		z := zeroTimeNS
		return term.Const(64, uint64(z))
	}
	return s[1].(*term.Term)
}

const zeroTimeNS = int64(-6795364578871345152) // time.Time{}.UnixNano() as computed by Go (wraps); only ordering vs. real instants matters

// tick returns a fresh non-decreasing clock reading.
func (m *Machine) tick() *term.Term {
	t := m.NewInput("now", 64)
	if !m.ConcOn {
		lo := term.Const(64, 1)
		if m.clock != nil {
			lo = m.clock
		}
		m.Assume(term.And(term.Cmp(term.OSle, lo, t), term.Cmp(term.OSlt, t, term.Const(64, 1<<61))))
	}
	m.clock = t
	return t
}

func init() {
	reg("time.Now", func(fr *frame, args []Value) Value { return mkTime(fr.m.tick()) })
	// time.Since/Until read the same clock as time.Now: a harness that overrides time.Now
	// (virtual time) thereby fixes them too.
	nowNS := func(fr *frame) *term.Term {
		if ov, ok := fr.m.overrides["time.Now"]; ok {
			return timeNS(fr, fr.m.call(fr, fr.curPos, ov, nil))
		}
		return fr.m.tick()
	}
	reg("time.Since", func(fr *frame, args []Value) Value {
		return term.Bin(term.OSub, nowNS(fr), timeNS(fr, args[0]))
	})
	reg("time.Until", func(fr *frame, args []Value) Value {
		return term.Bin(term.OSub, timeNS(fr, args[0]), nowNS(fr))
	})
	reg("time.Unix", func(fr *frame, args []Value) Value {
		sec, ns := args[0].(*term.Term), args[1].(*term.Term)
		return mkTime(term.Bin(term.OAdd, term.Bin(term.OMul, sec, term.Const(64, 1e9)), ns))
	})
	reg("time.UnixMilli", func(fr *frame, args []Value) Value {
		return mkTime(term.Bin(term.OMul, args[0].(*term.Term), term.Const(64, 1e6)))
	})
	reg("time.UnixMicro", func(fr *frame, args []Value) Value {
		return mkTime(term.Bin(term.OMul, args[0].(*term.Term), term.Const(64, 1e3)))
	})
	reg("(time.Time).Sub", func(fr *frame, args []Value) Value {
		return term.Bin(term.OSub, timeNS(fr, args[0]), timeNS(fr, args[1]))
	})
	reg("(time.Time).Add", func(fr *frame, args []Value) Value {
		return mkTime(term.Bin(term.OAdd, timeNS(fr, args[0]), args[1].(*term.Term)))
	})
	reg("(time.Time).After", func(fr *frame, args []Value) Value {
		return term.Cmp(term.OSlt, timeNS(fr, args[1]), timeNS(fr, args[0]))
	})
	reg("(time.Time).Before", func(fr *frame, args []Value) Value {
		return term.Cmp(term.OSlt, timeNS(fr, args[0]), timeNS(fr, args[1]))
	})
	reg("(time.Time).Equal", func(fr *frame, args []Value) Value {
		return term.Eq(timeNS(fr, args[0]), timeNS(fr, args[1]))
	})
	reg("(time.Time).Compare", func(fr *frame, args []Value) Value {
		a, b := timeNS(fr, args[0]), timeNS(fr, args[1])
		return term.Ite(term.Cmp(term.OSlt, a, b), tInt(-1), term.Ite(term.Eq(a, b), tInt(0), tInt(1)))
	})
	reg("(time.Time).IsZero", func(fr *frame, args []Value) Value {
		return term.Eq(args[0].(Struct)[0].(*term.Term), term.Const(64, 0))
	})
	reg("(time.Time).UnixNano", func(fr *frame, args []Value) Value { return timeNS(fr, args[0]) })
	reg("(time.Time).UnixMilli", func(fr *frame, args []Value) Value {
		return fr.divConst(timeNS(fr, args[0]), 1e6)
	})
	reg("(time.Time).UnixMicro", func(fr *frame, args []Value) Value {
		return fr.divConst(timeNS(fr, args[0]), 1e3)
	})
	reg("(time.Time).Unix", func(fr *frame, args []Value) Value {
		return fr.divConst(timeNS(fr, args[0]), 1e9)
	})
	same := func(fr *frame, args []Value) Value { return args[0] }
	reg("(time.Time).UTC", same)
	reg("(time.Time).Local", same)
	reg("(time.Time).Round", same)
	reg("(time.Time).In", same)
	reg("(time.Time).Truncate", func(fr *frame, args []Value) Value {
		d := args[1].(*term.Term)
		if d.IsConst() && d.Signed() <= 0 {
			return args[0]
		}
		ns := timeNS(fr, args[0])
		return mkTime(term.Bin(term.OSub, ns, term.Bin(term.OSRem, ns, d)))
	})
	reg("(time.Time).Format", func(fr *frame, args []Value) Value {
		ns := timeNS(fr, args[0])
		layout := fr.concStr(args[1], "time layout")
		if ns.IsConst() {
			return time.Unix(0, ns.Signed()).UTC().Format(layout)
		}
		return fr.m.newToken("time", ns)
	})
	reg("(time.Time).String", func(fr *frame, args []Value) Value { return "<time>" })
	// calendar fields: native for a constant instant; for a symbolic one only the coarse facts the
	// callers here need (net/http cookie code asks "year >= 1601").
	reg("(time.Time).Year", func(fr *frame, args []Value) Value {
		ns := timeNS(fr, args[0])
		if ns.IsConst() {
			return tInt(int64(time.Unix(0, ns.Signed()).UTC().Year()))
		}
		fr.m.unsupported("(time.Time).Year of a symbolic instant")
		return nil
	})
	for _, cf := range []struct {
		name string
		get  func(t time.Time) int64
	}{
		{"Month", func(t time.Time) int64 { return int64(t.Month()) }},
		{"Day", func(t time.Time) int64 { return int64(t.Day()) }},
		{"Hour", func(t time.Time) int64 { return int64(t.Hour()) }},
		{"Minute", func(t time.Time) int64 { return int64(t.Minute()) }},
		{"Second", func(t time.Time) int64 { return int64(t.Second()) }},
		{"YearDay", func(t time.Time) int64 { return int64(t.YearDay()) }},
	} {
		cf := cf
		reg("(time.Time)."+cf.name, func(fr *frame, args []Value) Value {
			ns := timeNS(fr, args[0])
			if ns.IsConst() {
				return tInt(cf.get(time.Unix(0, ns.Signed()).UTC()))
			}
			fr.m.unsupported("(time.Time)." + cf.name + " of a symbolic instant")
			return nil
		})
	}
	reg("(time.Time).AppendFormat", func(fr *frame, args []Value) Value {
		ns := timeNS(fr, args[0])
		layout := fr.concStr(args[2], "time layout")
		var text string
		if ns.IsConst() {
			text = time.Unix(0, ns.Signed()).UTC().Format(layout)
		} else {
			text = fr.m.newToken("time", ns)
		}
		var out []Value
		if d, ok := args[1].([]Value); ok {
			out = append(out, d...)
		}
		for _, b := range strBytes(text) {
			out = append(out, b)
		}
		return out
	})
	reg("time.Parse", func(fr *frame, args []Value) Value {
		s := args[1]
		if cs, ok := s.(string); ok {
			if kind, pay, ok := fr.m.tokenPayload(cs); ok && kind == "time" {
				return Tuple{mkTime(pay.(*term.Term)), Iface{}}
			}
			t, err := time.Parse(fr.concStr(args[0], "layout"), cs)
			if err != nil {
				return Tuple{Struct{term.Const(64, 0), term.Const(64, 0), (*Value)(nil)}, fr.m.mkErrorString(err.Error())}
			}
			return Tuple{mkTime(term.Const(64, uint64(t.UnixNano()))), Iface{}}
		}
		fr.m.unsupported("time.Parse of symbolic string")
		return nil
	})
	reg("time.Sleep", func(fr *frame, args []Value) Value { fr.m.yieldSync(); return nil })
	reg("(time.Duration).String", func(fr *frame, args []Value) Value {
		d := args[0].(*term.Term)
		if d.IsConst() {
			return time.Duration(d.Signed()).String()
		}
		return "<duration>"
	})
	reg("(time.Duration).Seconds", func(fr *frame, args []Value) Value {
		return time.Duration(fr.conc(args[0], "Duration.Seconds")).Seconds()
	})
	reg("(time.Duration).Milliseconds", func(fr *frame, args []Value) Value {
		return fr.divConst(args[0].(*term.Term), 1e6)
	})

	// timers and tickers: channels that only the harness's virtual clock fires
	reg("time.NewTicker", func(fr *frame, args []Value) Value { return fr.m.newTimerLike(fr, "Ticker") })
	reg("time.NewTimer", func(fr *frame, args []Value) Value { return fr.m.newTimerLike(fr, "Timer") })
	reg("time.After", func(fr *frame, args []Value) Value {
		ch := &Chan{cap: 1, elem: fr.fn.Signature.Results().At(0).Type().Underlying().(*types.Chan).Elem()}
		fr.m.timers = append(fr.m.timers, ch)
		return ch
	})
	reg("time.Tick", intrinsics["time.After"])
	reg("time.AfterFunc", func(fr *frame, args []Value) Value {
		fr.m.afterFuncs = append(fr.m.afterFuncs, args[1])
		return fr.m.newTimerLike(fr, "Timer")
	})
	stop := func(fr *frame, args []Value) Value {
		if fr.fn.Signature.Results().Len() == 0 {
			return nil
		}
		return term.True
	}
	reg("(*time.Ticker).Stop", stop)
	reg("(*time.Timer).Stop", stop)
	reg("(*time.Ticker).Reset", stop)
	reg("(*time.Timer).Reset", stop)
}

// divConst divides a signed 64-bit term by a positive constant (Go semantics: truncation).
func (fr *frame) divConst(x *term.Term, c int64) *term.Term {
	return term.Bin(term.OSDiv, x, term.Const(64, uint64(c)))
}

func (m *Machine) newTimerLike(fr *frame, typ string) Value {
	pkg := m.Prog.ImportedPackage("time")
	t := pkg.Type(typ).Type()
	st := t.Underlying().(*types.Struct)
	s := m.zero(t).(Struct)
	for i := 0; i < st.NumFields(); i++ {
		if st.Field(i).Name() == "C" {
			ch := &Chan{cap: 1, elem: st.Field(i).Type().Underlying().(*types.Chan).Elem()}
			m.timers = append(m.timers, ch)
			s[i] = ch
		}
	}
	var cell Value = s
	return &cell
}

// FireTimer delivers a tick on the k-th timer/ticker channel created so far.
func (m *Machine) fireTimer(k int) bool {
	if k < 0 || k >= len(m.timers) {
		return false
	}
	ch := m.timers[k]
	now := mkTime(m.tick())
	if w := ch.firstReceiver(); w != nil {
		w.v, w.ok = now, true
		w.fire()
		ch.recvq = removeWaiter(ch.recvq, w)
		return true
	}
	if len(ch.buf) < ch.cap {
		ch.buf = append(ch.buf, now)
	}
	return true
}

// tokens: opaque strings standing for encoded values (abstract codecs)

func (m *Machine) newToken(kind string, payload any) string {
	m.kvTokens++
	s := "\x00" + kind + "#" + itoa(m.kvTokens) + "\x00"
	if m.tokens == nil {
		m.tokens = map[string]tokenVal{}
	}
	m.tokens[s] = tokenVal{kind, payload}
	return s
}

type tokenVal struct {
	kind    string
	payload any
}

func (m *Machine) tokenPayload(s string) (string, any, bool) {
	if !strings.HasPrefix(s, "\x00") {
		return "", nil, false
	}
	tv, ok := m.tokens[s]
	return tv.kind, tv.payload, ok
}

func itoa(i int) string {
	if i == 0 {
		return "0"
	}
	var b []byte
	for i > 0 {
		b = append([]byte{byte('0' + i%10)}, b...)
		i /= 10
	}
	return string(b)
}

// timeMethodGuard rejects un-modelled methods of time.Time (the struct layout is the model's).
func timeMethodGuard(fn *ssa.Function) bool {
	if fn.Signature.Recv() == nil {
		return false
	}
	rt := fn.Signature.Recv().Type()
	if p, ok := rt.(*types.Pointer); ok {
		rt = p.Elem()
	}
	return typeStr(rt) == "time.Time"
}
