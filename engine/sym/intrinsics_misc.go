package sym

import "gosym/term"

func init() {
	// Random sources: distinct, increasing values (stated assumption: id generators do not collide).
	next := func(fr *frame) uint64 {
		fr.m.freshID++
		return uint64(1000 + fr.m.freshID)
	}
	reg("math/rand.Int63", func(fr *frame, args []Value) Value { return term.Const(64, next(fr)) })
	reg("math/rand.Int", func(fr *frame, args []Value) Value { return term.Const(64, next(fr)) })
	reg("math/rand.Int31", func(fr *frame, args []Value) Value { return term.Const(32, next(fr)) })
	reg("math/rand.Uint32", func(fr *frame, args []Value) Value { return term.Const(32, next(fr)) })
	reg("math/rand.Uint64", func(fr *frame, args []Value) Value { return term.Const(64, next(fr)) })
	reg("math/rand.Intn", func(fr *frame, args []Value) Value { return term.Const(64, 0) })
	reg("math/rand.Int63n", func(fr *frame, args []Value) Value { return term.Const(64, 0) })
	reg("math/rand.Int31n", func(fr *frame, args []Value) Value { return term.Const(32, 0) })
	reg("math/rand.Float64", func(fr *frame, args []Value) Value { return float64(0.5) })
}
