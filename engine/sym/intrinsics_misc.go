package sym

import (
	"go/types"

	"gosym/term"
)

func init() {
	// Random sources: distinct, increasing values (stated assumption: id generators do not collide).
	next := func(fr *frame) uint64 {
		fr.m.freshID++
		return uint64(1000 + fr.m.freshID)
	}
	reg("math/rand.Int63", func(fr *frame, args []Value) Value { return term.Const(64, next(fr)) })
	reg("math/rand.Int", func(fr *frame, args []Value) Value { return term.Const(64, next(fr)) })
	reg("math/rand.Int31", func(fr *frame, args []Value) Value { return term.Const(32, next(fr)) })
	reg("math/rand.Uint32", func(fr *frame, args []Value) Value { return term.Const(32, next(fr)) })
	reg("math/rand.Uint64", func(fr *frame, args []Value) Value { return term.Const(64, next(fr)) })
	reg("math/rand.Intn", func(fr *frame, args []Value) Value { return term.Const(64, 0) })
	reg("math/rand.Int63n", func(fr *frame, args []Value) Value { return term.Const(64, 0) })
	reg("math/rand.Int31n", func(fr *frame, args []Value) Value { return term.Const(32, 0) })
	reg("math/rand.Float64", func(fr *frame, args []Value) Value { return float64(0.5) })
}

// math/bits.Len*: the library indexes a 256-entry table with a byte of x; for a symbolic x that
// would be concretised. Modelled as the ite chain "highest i with x >= 2^i".
func init() {
	lenN := func(w uint8) intrinsic {
		return func(fr *frame, args []Value) Value {
			x := args[0].(*term.Term)
			if x.W < w {
				x = term.ZExt(x, w)
			}
			res := tInt(0)
			for i := 0; i < int(w); i++ {
				ge := term.Not(term.Cmp(term.OUlt, x, term.Const(w, uint64(1)<<uint(i))))
				res = term.Ite(ge, tInt(int64(i+1)), res)
			}
			return res
		}
	}
	reg("math/bits.Len64", lenN(64))
	reg("math/bits.Len32", lenN(32))
	reg("math/bits.Len16", lenN(16))
	reg("math/bits.Len8", lenN(8))
	reg("math/bits.Len", lenN(64))
}

func init() {
	// process statistics: not part of any property; zero usage, no error
	reg("syscall.Getrusage", func(fr *frame, args []Value) Value { return Iface{} })
	reg("os.Getpid", func(fr *frame, args []Value) Value { return tInt(4242) })
	reg("runtime.ReadMemStats", func(fr *frame, args []Value) Value { return nil })
}

// reflect.DeepEqual over interpreter values (kmsg uses it to detect default-valued tagged
// structs). Scalars compare as terms, containers structurally; maps, channels and functions with
// symbolic content are outside the model.
func (fr *frame) deepEqual(a, b Value, depth int) *term.Term {
	a, b = fr.m.forceFloat(a), fr.m.forceFloat(b)
	if depth > 40 {
		fr.m.unsupported("reflect.DeepEqual: nesting too deep")
	}
	switch x := a.(type) {
	case nil:
		return term.Bool(b == nil)
	case *term.Term:
		y, ok := b.(*term.Term)
		if !ok || y.W != x.W {
			return term.False
		}
		return term.Eq(x, y)
	case string, SymStr:
		switch b.(type) {
		case string, SymStr:
			return strEq(a, b)
		}
		return term.False
	case float64:
		y, ok := b.(float64)
		return term.Bool(ok && x == y)
	case Struct:
		y, ok := b.(Struct)
		if !ok || len(x) != len(y) {
			return term.False
		}
		r := term.True
		for i := range x {
			r = term.And(r, fr.deepEqual(x[i], y[i], depth+1))
		}
		return r
	case Array:
		y, ok := b.(Array)
		if !ok || len(x) != len(y) {
			return term.False
		}
		r := term.True
		for i := range x {
			r = term.And(r, fr.deepEqual(x[i], y[i], depth+1))
		}
		return r
	case []Value:
		y, ok := b.([]Value)
		if !ok || len(x) != len(y) || (x == nil) != (y == nil) {
			return term.False
		}
		r := term.True
		for i := range x {
			r = term.And(r, fr.deepEqual(x[i], y[i], depth+1))
		}
		return r
	case *Value:
		y, ok := b.(*Value)
		if !ok {
			return term.False
		}
		if x == nil || y == nil {
			return term.Bool(x == y)
		}
		if x == y {
			return term.True
		}
		return fr.deepEqual(*x, *y, depth+1)
	case Iface:
		y, ok := b.(Iface)
		if !ok {
			return term.False
		}
		if x.T == nil || y.T == nil {
			return term.Bool(x.T == nil && y.T == nil)
		}
		if !types.Identical(x.T, y.T) {
			return term.False
		}
		return fr.deepEqual(x.V, y.V, depth+1)
	case *Map:
		y, ok := b.(*Map)
		if !ok {
			return term.False
		}
		if x == nil || y == nil || x.n == 0 || y.n == 0 {
			xn, yn := x == nil, y == nil
			xe, ye := x == nil || x.n == 0, y == nil || y.n == 0
			return term.Bool(xn == yn && xe == ye)
		}
	}
	fr.m.unsupported("reflect.DeepEqual on %T", a)
	return nil
}

func init() {
	reg("reflect.DeepEqual", func(fr *frame, args []Value) Value {
		return fr.deepEqual(args[0], args[1], 0)
	})
}

// deepCopy duplicates a value together with everything reachable from it (fresh cells, slices
// and maps), as a serialise/deserialise round trip or proto.Clone would.
func (m *Machine) deepCopy(v Value, depth int) Value {
	if depth > 60 {
		m.unsupported("deep copy: nesting too deep")
	}
	switch x := v.(type) {
	case Struct:
		c := make(Struct, len(x))
		for i := range x {
			c[i] = m.deepCopy(x[i], depth+1)
		}
		return c
	case Array:
		c := make(Array, len(x))
		for i := range x {
			c[i] = m.deepCopy(x[i], depth+1)
		}
		return c
	case []Value:
		if x == nil {
			return x
		}
		c := make([]Value, len(x))
		for i := range x {
			c[i] = m.deepCopy(x[i], depth+1)
		}
		return c
	case *Value:
		if x == nil {
			return x
		}
		cell := m.deepCopy(*x, depth+1)
		return &cell
	case Iface:
		return Iface{T: x.T, V: m.deepCopy(x.V, depth+1)}
	case *Map:
		if x == nil {
			return x
		}
		c := &Map{index: map[string]int{}}
		for _, e := range x.entries {
			if e.deleted {
				continue
			}
			c.entries = append(c.entries, &mapEntry{k: m.deepCopy(e.k, depth+1), v: m.deepCopy(e.v, depth+1)})
			if ck, ok := canonKey(e.k); ok {
				c.index[ck] = len(c.entries) - 1
			}
			c.n++
		}
		return c
	}
	return v
}

// Abstract codecs (DESIGN §3.5): Marshal returns an opaque blob that carries a deep copy of the
// value; Unmarshal of such a blob into a destination of the same type stores a deep copy of it.
// Anything else (foreign bytes, different type) is outside the model and fails loud.
func (m *Machine) encodeBlob(kind string, v Value) Value {
	tok := m.newToken(kind, m.deepCopy(v, 0))
	return byteSlice([]byte(tok))
}

func (m *Machine) decodeBlob(kind string, data Value, dst Value) Value {
	bs, ok := allConst(bytesOf(data))
	if !ok {
		m.unsupported("%s decode of symbolic bytes", kind)
	}
	k, pay, ok := m.tokenPayload(string(bs))
	if !ok || k != kind {
		m.unsupported("%s decode of bytes that were not produced by the matching encoder in this run", kind)
	}
	src, ok1 := pay.(Iface)
	dsti, ok2 := dst.(Iface)
	if !ok1 || !ok2 || src.T == nil || dsti.T == nil {
		m.unsupported("%s decode: unsupported source/destination shape (%T into %T)", kind, pay, dst)
	}
	dptr, isPtr := dsti.T.Underlying().(*types.Pointer)
	d, okd := dsti.V.(*Value)
	if !isPtr || !okd || d == nil {
		m.unsupported("%s decode: destination is not a pointer", kind)
	}
	if types.Identical(src.T, dsti.T) {
		sp, _ := src.V.(*Value)
		if sp == nil {
			m.unsupported("%s decode: nil source", kind)
		}
		m.store(d, m.deepCopy(*sp, 0))
		return Iface{}
	}
	if types.Identical(src.T, dptr.Elem()) {
		m.store(d, m.deepCopy(src.V, 0))
		return Iface{}
	}
	m.unsupported("%s decode: value of type %s decoded into %s (only same-type round trips are modelled)", kind, typeStr(src.T), typeStr(dsti.T))
	return Iface{}
}

func init() {
	reg("google.golang.org/protobuf/proto.Clone", func(fr *frame, args []Value) Value {
		in := args[0].(Iface)
		return Iface{T: in.T, V: fr.m.deepCopy(in.V, 0)}
	})
	reg("google.golang.org/protobuf/proto.Marshal", func(fr *frame, args []Value) Value {
		fr.m.StubsHit["codec:proto"]++
		return Tuple{fr.m.encodeBlob("proto", args[0]), Iface{}}
	})
	reg("google.golang.org/protobuf/proto.Unmarshal", func(fr *frame, args []Value) Value {
		return fr.m.decodeBlob("proto", args[0], args[1])
	})
	reg("encoding/json.Marshal", func(fr *frame, args []Value) Value {
		fr.m.StubsHit["codec:json"]++
		return Tuple{fr.m.encodeBlob("json", args[0]), Iface{}}
	})
	reg("encoding/json.Unmarshal", func(fr *frame, args []Value) Value {
		return fr.m.decodeBlob("json", args[0], args[1])
	})
}
