package sym

import "gosym/term"

func init() {
	// Random sources: distinct, increasing values (stated assumption: id generators do not collide).
	next := func(fr *frame) uint64 {
		fr.m.freshID++
		return uint64(1000 + fr.m.freshID)
	}
	reg("math/rand.Int63", func(fr *frame, args []Value) Value { return term.Const(64, next(fr)) })
	reg("math/rand.Int", func(fr *frame, args []Value) Value { return term.Const(64, next(fr)) })
	reg("math/rand.Int31", func(fr *frame, args []Value) Value { return term.Const(32, next(fr)) })
	reg("math/rand.Uint32", func(fr *frame, args []Value) Value { return term.Const(32, next(fr)) })
	reg("math/rand.Uint64", func(fr *frame, args []Value) Value { return term.Const(64, next(fr)) })
	reg("math/rand.Intn", func(fr *frame, args []Value) Value { return term.Const(64, 0) })
	reg("math/rand.Int63n", func(fr *frame, args []Value) Value { return term.Const(64, 0) })
	reg("math/rand.Int31n", func(fr *frame, args []Value) Value { return term.Const(32, 0) })
	reg("math/rand.Float64", func(fr *frame, args []Value) Value { return float64(0.5) })
}

// math/bits.Len*: the library indexes a 256-entry table with a byte of x; for a symbolic x that
// would be concretised. Modelled as the ite chain "highest i with x >= 2^i".
func init() {
	lenN := func(w uint8) intrinsic {
		return func(fr *frame, args []Value) Value {
			x := args[0].(*term.Term)
			if x.W < w {
				x = term.ZExt(x, w)
			}
			res := tInt(0)
			for i := 0; i < int(w); i++ {
				ge := term.Not(term.Cmp(term.OUlt, x, term.Const(w, uint64(1)<<uint(i))))
				res = term.Ite(ge, tInt(int64(i+1)), res)
			}
			return res
		}
	}
	reg("math/bits.Len64", lenN(64))
	reg("math/bits.Len32", lenN(32))
	reg("math/bits.Len16", lenN(16))
	reg("math/bits.Len8", lenN(8))
	reg("math/bits.Len", lenN(64))
}

func init() {
	// process statistics: not part of any property; zero usage, no error
	reg("syscall.Getrusage", func(fr *frame, args []Value) Value { return Iface{} })
	reg("os.Getpid", func(fr *frame, args []Value) Value { return tInt(4242) })
	reg("runtime.ReadMemStats", func(fr *frame, args []Value) Value { return nil })
}
