package sym

import (
	"fmt"
	"go/token"
	"go/types"
	"runtime/debug"

	"golang.org/x/tools/go/ssa"
	"gosym/term"
)

// Thread is a logical thread of the interpreted program. Exactly one runs at a time.
type Thread struct {
	id     int
	wake   chan struct{}
	exited chan struct{}
	done   bool
	ready  func() bool // nil = runnable
	name   string
	harness bool // started by vsym_Go
	hidx    int  // spawn order among harness threads
}

type mutexState struct {
	locked  bool
	readers int
	owner   *Thread
}
type wgState struct{ n int64 }
type condState struct{ waiters []*condWaiter }
type condWaiter struct{ signalled bool }

func (m *Machine) newThread(name string) *Thread {
	t := &Thread{id: len(m.threads), wake: make(chan struct{}, 1), exited: make(chan struct{}), name: name}
	m.threads = append(m.threads, t)
	return t
}

func (m *Machine) runMain(entry *ssa.Function) {
	m.doneCh = make(chan struct{})
	t := m.newThread("main")
	m.cur = t
	go m.threadBody(t, func() { m.call(nil, token.NoPos, entry, nil) }, true)
	<-m.doneCh
}

func (m *Machine) threadBody(t *Thread, f func(), isMain bool) {
	defer func() {
		r := recover()
		t.done = true
		killed := false
		switch x := r.(type) {
		case nil:
		case abort:
			if x.kind == abKilled {
				killed = true
			} else if m.finalAb == nil && m.finalPan == nil {
				ab := x
				m.finalAb = &ab
			}
		case targetPanic:
			if m.finalAb == nil && m.finalPan == nil {
				tp := x
				m.finalPan = &tp
			}
		case engineError:
			if m.finalAb == nil && m.finalPan == nil {
				m.finalAb = &abort{abUnsupported, "engine error: " + x.msg}
			}
		default:
			if m.finalAb == nil && m.finalPan == nil {
				m.finalAb = &abort{abUnsupported, fmt.Sprintf("engine error: %v\n%s", r, debug.Stack())}
			}
		}
		if killed || m.killing {
			close(t.exited)
			return
		}
		if isMain || m.finalAb != nil || m.finalPan != nil {
			m.endRun(t)
			return
		}
		// a secondary thread finished normally: hand the baton on
		close(t.exited)
		m.switchAway(t, true)
	}()
	if !isMain {
		<-t.wake
		if m.killing {
			panic(abort{abKilled, ""})
		}
		if t.harness && m.explore {
			// the moment a harness thread first runs is part of the recorded schedule
			m.events = append(m.events, fmt.Sprintf("vsym-start#%d", t.hidx))
		}
	}
	f()
}

// endRun kills every other thread and signals the driver.
func (m *Machine) endRun(self *Thread) {
	m.killing = true
	for _, t := range m.threads {
		if t == self || t.done {
			continue
		}
		t.wake <- struct{}{}
		<-t.exited
	}
	close(self.exited)
	close(m.doneCh)
}

func (m *Machine) candidates() []*Thread {
	var c []*Thread
	for _, t := range m.threads {
		if t.done {
			continue
		}
		if t.ready == nil || t.ready() {
			c = append(c, t)
		}
	}
	return c
}

// switchAway picks the next thread to run. If ended, the current thread is finished and
// does not wait for the baton again.
func (m *Machine) switchAway(self *Thread, ended bool) {
	c := m.candidates()
	if len(c) == 0 {
		if ended {
			// every remaining thread is blocked; main is among them → deadlock
			alive := false
			for _, t := range m.threads {
				if !t.done {
					alive = true
				}
			}
			if !alive {
				close(m.doneCh)
				return
			}
			m.finalAb = &abort{abDeadlock, m.describeBlocked()}
			m.killing = true
			for _, t := range m.threads {
				if t.done {
					continue
				}
				t.wake <- struct{}{}
				<-t.exited
			}
			close(m.doneCh)
			return
		}
		panic(abort{abDeadlock, m.describeBlocked()})
	}
	idx := 0
	selfRunnable := false
	if !ended {
		for _, t := range c {
			if t == self {
				selfRunnable = true
			}
		}
	}
	if m.explore && m.daemonsFirst && len(c) > 1 {
		// goroutines started by the code under test (not by vsym_Go) run eagerly and in a fixed
		// order as soon as they can: only the harness's own threads are interleaved freely
		for _, t := range c {
			if !t.harness && t.id != 0 && t != self {
				m.cur = t
				t.wake <- struct{}{}
				if !ended {
					m.park(self)
				}
				return
			}
		}
		// no daemon is runnable: choose among harness threads (and main) only
	}
	if m.explore && len(c) > 1 {
		if selfRunnable && m.preemptBound > 0 && m.preemptions >= m.preemptBound {
			// context bound reached: the running thread keeps the processor until it blocks or ends
			return
		}
		if m.delayBound > 0 {
			// delay-bounded scheduling: the default is "the running thread goes on" or, when it
			// cannot, the next runnable thread in round-robin order; every other pick is a delay,
			// and a path may contain at most delayBound of them
			def := 0
			if selfRunnable {
				for i, t := range c {
					if t == self {
						def = i
					}
				}
			} else {
				for i, t := range c {
					if t.id > self.id {
						def = i
						break
					}
				}
			}
			c = append(append([]*Thread(nil), c[def:]...), c[:def]...)
			if m.delays < m.delayBound {
				idx = m.Choose(len(c))
				if idx != 0 {
					m.delays++
				}
			}
		} else {
			idx = m.Choose(len(c))
		}
	}
	next := c[idx]
	if next == self {
		return
	}
	if selfRunnable {
		m.preemptions++
	}
	m.cur = next
	next.wake <- struct{}{}
	if ended {
		return
	}
	m.park(self)
}

func (m *Machine) park(t *Thread) {
	<-t.wake
	if m.killing {
		panic(abort{abKilled, ""})
	}
	m.cur = t
}

func (m *Machine) describeBlocked() string {
	s := "all threads blocked:"
	for _, t := range m.threads {
		if !t.done {
			s += " " + t.name
		}
	}
	return s
}

// blockUntil suspends the current thread until ready() holds.
func (m *Machine) blockUntil(ready func() bool) {
	t := m.cur
	for !ready() {
		t.ready = ready
		m.switchAway(t, false)
	}
	t.ready = nil
}

// yield is a scheduling point: in explore mode any runnable thread may go next.
func (m *Machine) yield() {
	if !m.explore || len(m.threads) < 2 {
		return
	}
	m.switchAway(m.cur, false)
}

// yieldSync is the scheduling point in front of a synchronisation operation. With coarse
// schedules (vsym_ExploreEvents) threads are preempted only at named events and when they
// block, so these points do not fork.
func (m *Machine) yieldSync() {
	if m.coarse {
		return
	}
	m.yield()
}

func (m *Machine) spawn(fr *frame, pos token.Pos, fn Value, args []Value) {
	m.spawnT(fr, pos, fn, args, false)
}

func (m *Machine) spawnT(fr *frame, pos token.Pos, fn Value, args []Value, harness bool) {
	name := "go"
	switch f := fn.(type) {
	case *ssa.Function:
		name = f.String()
	case *Closure:
		name = f.Fn.String()
	}
	t := m.newThread(fmt.Sprintf("%s#%d", name, len(m.threads)))
	t.harness = harness
	if harness {
		for _, o := range m.threads {
			if o != t && o.harness {
				t.hidx++
			}
		}
	}
	go m.threadBody(t, func() { m.call(nil, pos, fn, args) }, false)
	if !m.explore {
		// run-to-block: the new thread runs first
		self := m.cur
		m.cur = t
		t.wake <- struct{}{}
		m.park(self)
	} else {
		m.yieldSync()
	}
}

// joinAll blocks the caller until every other thread has finished.
func (m *Machine) joinAll() {
	self := m.cur
	m.blockUntil(func() bool {
		// vsym_Join waits for the threads the harness started with vsym_Go; goroutines of the code
		// under test that never end (watch loops, tickers) do not hold it up
		for _, t := range m.threads {
			if t != self && !t.done && t.harness {
				return false
			}
		}
		return true
	})
}

// ---------------------------------------------------------------------------
// channels

func (c *Chan) firstSender() *chanWaiter {
	for len(c.sendq) > 0 {
		w := c.sendq[0]
		if w.stale() {
			c.sendq = c.sendq[1:]
			continue
		}
		return w
	}
	return nil
}

func (c *Chan) firstReceiver() *chanWaiter {
	for len(c.recvq) > 0 {
		w := c.recvq[0]
		if w.stale() {
			c.recvq = c.recvq[1:]
			continue
		}
		return w
	}
	return nil
}

func (w *chanWaiter) stale() bool { return w.done || (w.grp != nil && w.grp.fired) }

func (w *chanWaiter) fire() {
	w.done = true
	if w.grp != nil {
		w.grp.fired = true
	}
}

func removeWaiter(q []*chanWaiter, w *chanWaiter) []*chanWaiter {
	for i, x := range q {
		if x == w {
			return append(q[:i:i], q[i+1:]...)
		}
	}
	return q
}

func (m *Machine) chanSend(fr *frame, ch *Chan, v Value) {
	m.yieldSync()
	if ch == nil {
		m.blockUntil(func() bool { return false })
	}
	if ch.closed {
		fr.tpanic("chan", "send on closed channel")
	}
	if w := ch.firstReceiver(); w != nil {
		w.v, w.ok = v, true
		w.fire()
		ch.recvq = removeWaiter(ch.recvq, w)
		return
	}
	if len(ch.buf) < ch.cap {
		ch.buf = append(ch.buf, v)
		return
	}
	w := &chanWaiter{t: m.cur, v: v}
	ch.sendq = append(ch.sendq, w)
	m.blockUntil(func() bool { return w.done || ch.closed })
	if !w.done {
		ch.sendq = removeWaiter(ch.sendq, w)
		fr.tpanic("chan", "send on closed channel")
	}
}

func (m *Machine) chanTryRecv(ch *Chan) (Value, bool, bool) {
	if len(ch.buf) > 0 {
		v := ch.buf[0]
		ch.buf = append([]Value(nil), ch.buf[1:]...)
		if w := ch.firstSender(); w != nil {
			ch.buf = append(ch.buf, w.v)
			w.fire()
			ch.sendq = removeWaiter(ch.sendq, w)
		}
		return v, true, true
	}
	if w := ch.firstSender(); w != nil {
		w.fire()
		ch.sendq = removeWaiter(ch.sendq, w)
		return w.v, true, true
	}
	if ch.closed {
		return m.zero(ch.elem), false, true
	}
	return nil, false, false
}

func (m *Machine) chanRecv(fr *frame, ch *Chan) (Value, bool) {
	m.yieldSync()
	if ch == nil {
		m.blockUntil(func() bool { return false })
	}
	if v, ok, got := m.chanTryRecv(ch); got {
		return v, ok
	}
	w := &chanWaiter{t: m.cur}
	ch.recvq = append(ch.recvq, w)
	m.blockUntil(func() bool { return w.done || ch.closed })
	if w.done {
		return w.v, w.ok
	}
	ch.recvq = removeWaiter(ch.recvq, w)
	w.done = true
	return m.zero(ch.elem), false
}

func (m *Machine) chanClose(fr *frame, ch *Chan) {
	if ch == nil {
		fr.tpanic("chan", "close of nil channel")
	}
	if ch.closed {
		fr.tpanic("chan", "close of closed channel")
	}
	ch.closed = true
}

func (m *Machine) chanSelect(fr *frame, instr *ssa.Select) Value {
	m.yieldSync()
	type scase struct {
		ch   *Chan
		send bool
		v    Value
	}
	cases := make([]scase, len(instr.States))
	for i, st := range instr.States {
		c := scase{send: st.Dir == types.SendOnly}
		c.ch, _ = fr.get(st.Chan).(*Chan)
		if c.send {
			c.v = fr.get(st.Send)
		}
		cases[i] = c
	}
	readyIdx := func() []int {
		var r []int
		for i, c := range cases {
			if c.ch == nil {
				continue
			}
			if c.send {
				if c.ch.closed || c.ch.firstReceiver() != nil || len(c.ch.buf) < c.ch.cap {
					r = append(r, i)
				}
			} else {
				if len(c.ch.buf) > 0 || c.ch.firstSender() != nil || c.ch.closed {
					r = append(r, i)
				}
			}
		}
		return r
	}
	result := func(chosen int, recv Value, recvOk bool) Value {
		r := Tuple{term.Const(64, uint64(int64(chosen))), term.Bool(recvOk)}
		for i, st := range instr.States {
			if st.Dir == types.RecvOnly {
				var v Value
				if i == chosen && recvOk {
					v = recv
				} else {
					v = m.zero(st.Chan.Type().Underlying().(*types.Chan).Elem())
				}
				r = append(r, v)
			}
		}
		return r
	}
	for {
		r := readyIdx()
		if len(r) > 0 {
			k := 0
			if m.explore && len(r) > 1 {
				k = m.Choose(len(r))
			}
			i := r[k]
			c := cases[i]
			if c.send {
				if c.ch.closed {
					fr.tpanic("chan", "send on closed channel")
				}
				if w := c.ch.firstReceiver(); w != nil {
					w.v, w.ok = c.v, true
					w.fire()
					c.ch.recvq = removeWaiter(c.ch.recvq, w)
				} else {
					c.ch.buf = append(c.ch.buf, c.v)
				}
				return result(i, nil, false)
			}
			v, ok, _ := m.chanTryRecv(c.ch)
			return result(i, v, ok)
		}
		if !instr.Blocking {
			return result(-1, nil, false)
		}
		// Block. Register as a receiver/sender on every channel so that peers blocked in
		// plain send/recv can see us; a shared waiter per case.
		var ws []*chanWaiter
		grp := &selGroup{}
		for _, c := range cases {
			if c.ch == nil {
				ws = append(ws, nil)
				continue
			}
			w := &chanWaiter{t: m.cur, v: c.v, grp: grp}
			ws = append(ws, w)
			if c.send {
				c.ch.sendq = append(c.ch.sendq, w)
			} else {
				c.ch.recvq = append(c.ch.recvq, w)
			}
		}
		fired := func() int {
			for i, w := range ws {
				if w != nil && w.done {
					return i
				}
			}
			return -1
		}
		m.blockUntil(func() bool { return fired() >= 0 || len(readyIdx()) > 0 })
		f := fired()
		for i, c := range cases {
			if ws[i] == nil || i == f {
				continue
			}
			if c.send {
				c.ch.sendq = removeWaiter(c.ch.sendq, ws[i])
			} else {
				c.ch.recvq = removeWaiter(c.ch.recvq, ws[i])
			}
			ws[i].done = true
		}
		if f >= 0 {
			if cases[f].send {
				return result(f, nil, false)
			}
			return result(f, ws[f].v, ws[f].ok)
		}
		// something became ready without a hand-off (buffer space, close): retry
	}
}
