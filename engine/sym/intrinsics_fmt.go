package sym

import (
	"fmt"
	"go/types"
	"sort"
	"strconv"
	"strings"

	"golang.org/x/tools/go/ssa"
	"gosym/term"
)

// native converts an interpreter value of static/dynamic type t into a host value fmt can print.
// Symbolic scalars are concretised; symbolic strings are returned as SymStr.
func (fr *frame) native(t types.Type, v Value, depth int) any {
	v = fr.m.forceFloat(v)
	m := fr.m
	if depth > 6 {
		return "…"
	}
	switch v := v.(type) {
	case nil:
		return nil
	case Poison:
		return "<poison>"
	case *term.Term:
		w, signed, _ := intInfo(t)
		if m.fmtLax && !v.IsConst() {
			// error-message text: a symbolic number is printed as a placeholder instead of forking
			return rawText("<n>")
		}
		if m.IntTokens && !v.IsConst() && v.W != 0 {
			// abstract codec: the decimal text of a symbolic integer is an opaque token that is
			// equal for structurally equal terms
			return rawText(m.keyedToken("int", termKey(v), v))
		}
		if w == 0 && v.W == 0 {
			return fr.conc(v, "fmt bool") == 1
		}
		var c int64
		if signed {
			c = m.Concretize(term.SExt(v, 64), "fmt integer")
		} else {
			c = m.Concretize(term.ZExt(v, 64), "fmt integer")
		}
		if signed {
			switch v.W {
			case 32:
				return int32(c)
			}
			return c
		}
		switch v.W {
		case 8:
			return uint8(c)
		}
		return uint64(c)
	case float64:
		return v
	case string:
		return v
	case SymStr:
		return v
	case Iface:
		if v.T == nil {
			return nil
		}
		return fr.native(v.T, v.V, depth)
	case []Value:
		if sl, ok := t.Underlying().(*types.Slice); ok {
			if b, ok := sl.Elem().Underlying().(*types.Basic); ok && b.Kind() == types.Uint8 {
				bs := bytesOf(v)
				if raw, ok := allConst(bs); ok {
					return raw
				}
				return SymStr(bs)
			}
			out := make([]any, len(v))
			for i, e := range v {
				out[i] = fr.printable(sl.Elem(), e, depth+1)
			}
			return out
		}
		return fmt.Sprintf("slice(len %d)", len(v))
	case Array:
		at, _ := t.Underlying().(*types.Array)
		out := make([]any, len(v))
		for i, e := range v {
			var et types.Type
			if at != nil {
				et = at.Elem()
			}
			out[i] = fr.printable(et, e, depth+1)
		}
		return out
	case Struct:
		st, _ := t.Underlying().(*types.Struct)
		parts := make([]string, len(v))
		for i, e := range v {
			var ft types.Type
			if st != nil {
				ft = st.Field(i).Type()
			}
			parts[i] = fmt.Sprint(fr.printable(ft, e, depth+1))
		}
		return rawText("{" + strings.Join(parts, " ") + "}")
	case *Value:
		if v == nil {
			return rawText("<nil>")
		}
		return rawText("0xc000010000")
	case *Map:
		if v == nil {
			return rawText("map[]")
		}
		mt, _ := t.Underlying().(*types.Map)
		var parts []string
		for _, e := range v.entries {
			if e.deleted {
				continue
			}
			var kt, vt types.Type
			if mt != nil {
				kt, vt = mt.Key(), mt.Elem()
			}
			parts = append(parts, fmt.Sprint(fr.printable(kt, e.k, depth+1))+":"+fmt.Sprint(fr.printable(vt, e.v, depth+1)))
		}
		sort.Strings(parts)
		return rawText("map[" + strings.Join(parts, " ") + "]")
	}
	return rawText(fmt.Sprintf("<%T>", v))
}

type rawText string

func (r rawText) String() string { return string(r) }

// printable is native() plus Error()/String() method dispatch.
func (fr *frame) printable(t types.Type, v Value, depth int) any {
	m := fr.m
	if iv, ok := v.(Iface); ok {
		if iv.T == nil {
			return nil
		}
		t, v = iv.T, iv.V
	}
	if t != nil {
		for _, name := range []string{"Error", "String"} {
			if f := m.findMethod(t, nil, name); f != nil {
				sig := f.Signature
				if sig.Params().Len() == 0 && sig.Results().Len() == 1 && isString(sig.Results().At(0).Type()) {
					if p, isPtr := v.(*Value); isPtr && p == nil {
						return rawText("<nil>")
					}
					if depth > 3 {
						return rawText("…")
					}
					r := m.call(fr, fr.curPos, f, []Value{v})
					switch s := r.(type) {
					case string:
						return s
					case SymStr:
						return s
					}
				}
			}
		}
	}
	return fr.native(t, v, depth)
}

// sprintf implements the formatting verbs used by the code under test.
func (fr *frame) sprintf(format string, args []Value) (out []*term.Term, wrapped []Value) {
	emit := func(s string) {
		for i := 0; i < len(s); i++ {
			out = append(out, term.Const(8, uint64(s[i])))
		}
	}
	argi := 0
	for i := 0; i < len(format); {
		c := format[i]
		if c != '%' {
			emit(string(c))
			i++
			continue
		}
		j := i + 1
		for j < len(format) && strings.IndexByte("+-# 0123456789.*[]", format[j]) >= 0 {
			j++
		}
		if j >= len(format) {
			emit("%!(NOVERB)")
			break
		}
		verb := format[j]
		spec := format[i : j+1]
		i = j + 1
		if verb == '%' {
			emit("%")
			continue
		}
		if strings.Contains(spec, "*") || strings.Contains(spec, "[") {
			fr.m.unsupported("fmt: %q uses * or [n]", spec)
		}
		if argi >= len(args) {
			emit("%!" + string(verb) + "(MISSING)")
			continue
		}
		a := args[argi]
		argi++
		ia, _ := a.(Iface)
		if verb == 'w' {
			wrapped = append(wrapped, a)
			spec = spec[:len(spec)-1] + "v"
			verb = 'v'
		}
		if verb == 'T' {
			if ia.T == nil {
				emit("<nil>")
			} else {
				emit(typeStr(ia.T))
			}
			continue
		}
		var nv any
		switch verb {
		case 'v', 's', 'q':
			nv = fr.printable(nil, a, 0)
		default:
			nv = fr.native(ia.T, ia.V, 0)
		}
		if ss, isSym := nv.(SymStr); isSym {
			switch verb {
			case 'q':
				emit("\"")
				out = append(out, ss...)
				emit("\"")
			default:
				out = append(out, ss...)
			}
			continue
		}
		if rt, ok := nv.(rawText); ok {
			nv = string(rt)
			if verb != 's' && verb != 'v' && verb != 'q' {
				spec = "%v"
			}
		}
		emit(fmt.Sprintf(spec, nv))
	}
	if argi < len(args) {
		emit("%!(EXTRA)")
	}
	return
}

func (m *Machine) mkErrorString(msg Value) Value {
	pkg := m.Prog.ImportedPackage("errors")
	if pkg == nil {
		m.unsupported("package errors not loaded")
	}
	t := pkg.Type("errorString").Type()
	var cell Value = Struct{msg}
	return Iface{T: types.NewPointer(t), V: &cell}
}

func (m *Machine) fmtType(name string) types.Type {
	pkg := m.Prog.ImportedPackage("fmt")
	if pkg == nil {
		m.unsupported("package fmt not loaded")
	}
	return pkg.Type(name).Type()
}

func varargs(v Value) []Value {
	s, _ := v.([]Value)
	return s
}

func init() {
	reg("fmt.Sprintf", func(fr *frame, args []Value) Value {
		out, _ := fr.sprintf(fr.concStr(args[0], "fmt format"), varargs(args[1]))
		return mkStr(out)
	})
	reg("fmt.Errorf", func(fr *frame, args []Value) Value {
		m := fr.m
		saved := m.fmtLax
		m.fmtLax = true
		out, wrapped := fr.sprintf(fr.concStr(args[0], "fmt format"), varargs(args[1]))
		m.fmtLax = saved
		msg := mkStr(out)
		switch len(wrapped) {
		case 0:
			return m.mkErrorString(msg)
		case 1:
			var cell Value = Struct{msg, wrapped[0]}
			return Iface{T: types.NewPointer(m.fmtType("wrapError")), V: &cell}
		default:
			var cell Value = Struct{msg, []Value(wrapped)}
			return Iface{T: types.NewPointer(m.fmtType("wrapErrors")), V: &cell}
		}
	})
	sprint := func(fr *frame, args []Value, ln bool) Value {
		var out []*term.Term
		for i, a := range varargs(args[0]) {
			if i > 0 && ln {
				out = append(out, term.Const(8, ' '))
			}
			nv := fr.printable(nil, a, 0)
			if ss, ok := nv.(SymStr); ok {
				out = append(out, ss...)
				continue
			}
			if rt, ok := nv.(rawText); ok {
				nv = string(rt)
			}
			for _, c := range []byte(fmt.Sprint(nv)) {
				out = append(out, term.Const(8, uint64(c)))
			}
		}
		if ln {
			out = append(out, term.Const(8, '\n'))
		}
		return mkStr(out)
	}
	reg("fmt.Sprint", func(fr *frame, args []Value) Value { return sprint(fr, args, false) })
	reg("fmt.Sprintln", func(fr *frame, args []Value) Value { return sprint(fr, args, true) })
	writeTo := func(fr *frame, w Value, s Value) Value {
		wi := w.(Iface)
		if wi.T == nil {
			fr.tpanic("nil-deref", "fmt.Fprintf to nil writer")
		}
		f := fr.m.findMethod(wi.T, nil, "Write")
		bs := bytesOf(s)
		buf := make([]Value, len(bs))
		for i, b := range bs {
			buf[i] = b
		}
		return fr.m.call(fr, fr.curPos, f, []Value{wi.V, buf})
	}
	reg("fmt.Fprintf", func(fr *frame, args []Value) Value {
		out, _ := fr.sprintf(fr.concStr(args[1], "fmt format"), varargs(args[2]))
		return writeTo(fr, args[0], mkStr(out))
	})
	reg("fmt.Fprint", func(fr *frame, args []Value) Value { return writeTo(fr, args[0], sprint(fr, args[1:], false)) })
	reg("fmt.Fprintln", func(fr *frame, args []Value) Value { return writeTo(fr, args[0], sprint(fr, args[1:], true)) })
	for _, n := range []string{"fmt.Printf", "fmt.Println", "fmt.Print"} {
		reg(n, func(fr *frame, args []Value) Value { return Tuple{tInt(0), Iface{}} })
	}
	reg("fmt.Sscanf", func(fr *frame, args []Value) Value { fr.m.unsupported("fmt.Sscanf"); return nil })

	// ----- errors -----
	reg("errors.Is", func(fr *frame, args []Value) Value { return term.Bool(fr.errorsIs(args[0], args[1], 0)) })
	reg("errors.As", func(fr *frame, args []Value) Value { return term.Bool(fr.errorsAs(args[0], args[1], 0)) })
	reg("errors.Unwrap", func(fr *frame, args []Value) Value {
		e := args[0].(Iface)
		if e.T == nil {
			return Iface{}
		}
		f := fr.m.findMethod(e.T, nil, "Unwrap")
		if f == nil || f.Signature.Results().Len() != 1 {
			return Iface{}
		}
		if _, isSlice := f.Signature.Results().At(0).Type().Underlying().(*types.Slice); isSlice {
			return Iface{}
		}
		return fr.m.call(fr, fr.curPos, f, []Value{e.V})
	})

	// ----- strconv on symbolic strings falls back to concretisation of digits: handled by interpreting strconv itself -----
	// abstract codec, decode side: the decimal text of a symbolic integer (an "int" token made by
	// Sprintf under int_tokens) parses back to that integer; a string that merely contains a token
	// is outside the model and fails loud instead of being rejected as "not a number".
	parseTok := func(fr *frame, args []Value, width uint8) (Value, bool) {
		cs, ok := args[0].(string)
		if !ok || !strings.Contains(cs, "\x00") {
			return nil, false
		}
		kind, pay, ok := fr.m.tokenPayload(cs)
		if !ok || kind != "int" {
			fr.m.unsupported("strconv parse of a string containing an abstract-codec token")
		}
		t := pay.(*term.Term)
		if t.W < width {
			t = term.SExt(t, width)
		}
		return Tuple{t, Iface{}}, true
	}
	reg("strconv.ParseInt", func(fr *frame, args []Value) Value {
		if v, ok := parseTok(fr, args, 64); ok {
			return v
		}
		return fr.m.execSSA(fr.caller, fr.fn, args, nil)
	})
	reg("strconv.Atoi", func(fr *frame, args []Value) Value {
		if v, ok := parseTok(fr, args, 64); ok {
			return v
		}
		return fr.m.execSSA(fr.caller, fr.fn, args, nil)
	})
	reg("strconv.Itoa", func(fr *frame, args []Value) Value {
		if t := args[0].(*term.Term); fr.m.IntTokens && !t.IsConst() {
			return fr.m.keyedToken("int", termKey(t), t)
		}
		return strconv.FormatInt(fr.conc(args[0], "strconv.Itoa"), 10)
	})
	reg("strconv.FormatInt", func(fr *frame, args []Value) Value {
		if t := args[0].(*term.Term); fr.m.IntTokens && !t.IsConst() {
			return fr.m.keyedToken("int", termKey(t), t)
		}
		return strconv.FormatInt(fr.conc(args[0], "strconv.FormatInt"), int(fr.conc(args[1], "base")))
	})
	reg("strconv.FormatUint", func(fr *frame, args []Value) Value {
		return strconv.FormatUint(uint64(fr.m.Concretize(args[0].(*term.Term), "strconv.FormatUint")), int(fr.conc(args[1], "base")))
	})
	reg("strconv.Quote", func(fr *frame, args []Value) Value {
		return strconv.Quote(fr.concStr(args[0], "strconv.Quote"))
	})
	reg("strconv.FormatFloat", func(fr *frame, args []Value) Value {
		return strconv.FormatFloat(args[0].(float64), byte(fr.conc(args[1], "fmt")), int(fr.conc(args[2], "prec")), int(fr.conc(args[3], "bits")))
	})
	reg("strconv.ParseFloat", func(fr *frame, args []Value) Value {
		f, err := strconv.ParseFloat(fr.concStr(args[0], "ParseFloat"), int(fr.conc(args[1], "bits")))
		if err != nil {
			return Tuple{f, fr.m.mkErrorString(err.Error())}
		}
		return Tuple{f, Iface{}}
	})
}

func (fr *frame) unwrapAll(e Iface) []Iface {
	m := fr.m
	f := m.findMethod(e.T, nil, "Unwrap")
	if f == nil || f.Signature.Params().Len() != 0 || f.Signature.Results().Len() != 1 {
		return nil
	}
	r := m.call(fr, fr.curPos, f, []Value{e.V})
	switch r := r.(type) {
	case Iface:
		if r.T == nil {
			return nil
		}
		return []Iface{r}
	case []Value:
		var out []Iface
		for _, x := range r {
			if xi, ok := x.(Iface); ok && xi.T != nil {
				out = append(out, xi)
			}
		}
		return out
	}
	return nil
}

func (fr *frame) errorsIs(errV, targetV Value, depth int) bool {
	m := fr.m
	err, _ := errV.(Iface)
	target, _ := targetV.(Iface)
	if err.T == nil || target.T == nil {
		return err.T == nil && target.T == nil
	}
	if depth > 32 {
		m.unsupported("errors.Is: chain too deep")
	}
	if types.Comparable(target.T) && types.Identical(err.T, target.T) {
		if m.Decide(m.equals(err.T, err.V, target.V)) {
			return true
		}
	}
	if f := m.findMethod(err.T, nil, "Is"); f != nil && f.Signature.Params().Len() == 1 && f.Signature.Results().Len() == 1 {
		r := m.call(fr, fr.curPos, f, []Value{err.V, target})
		if rt, ok := r.(*term.Term); ok && m.Decide(rt) {
			return true
		}
	}
	for _, u := range fr.unwrapAll(err) {
		if fr.errorsIs(u, target, depth+1) {
			return true
		}
	}
	return false
}

func (fr *frame) errorsAs(errV, targetV Value, depth int) bool {
	m := fr.m
	err, _ := errV.(Iface)
	if err.T == nil {
		return false
	}
	ti := targetV.(Iface)
	if ti.T == nil {
		fr.tpanic("errors", "errors: target cannot be nil")
	}
	pt, ok := ti.T.Underlying().(*types.Pointer)
	if !ok {
		fr.tpanic("errors", "errors: target must be a non-nil pointer")
	}
	tp := ti.V.(*Value)
	elem := pt.Elem()
	if it, isI := elem.Underlying().(*types.Interface); isI {
		if m.implements(err.T, it) {
			m.store(tp, err)
			return true
		}
	} else if types.Identical(err.T, elem) {
		m.store(tp, copyVal(err.V))
		return true
	}
	if f := m.findMethod(err.T, nil, "As"); f != nil && f.Signature.Params().Len() == 1 && f.Signature.Results().Len() == 1 {
		r := m.call(fr, fr.curPos, f, []Value{err.V, targetV})
		if rt, ok := r.(*term.Term); ok && m.Decide(rt) {
			return true
		}
	}
	for _, u := range fr.unwrapAll(err) {
		if fr.errorsAs(u, targetV, depth+1) {
			return true
		}
	}
	return false
}

var _ = ssa.BuilderMode(0)
