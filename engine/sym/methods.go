package sym

import (
	"go/types"

	"golang.org/x/tools/go/ssa"
)

// findMethod returns the method of t with the given name, or nil (never panics).
func (m *Machine) findMethod(t types.Type, pkg *types.Package, name string) *ssa.Function {
	if t == nil {
		return nil
	}
	sel := m.Prog.MethodSets.MethodSet(t).Lookup(pkg, name)
	if sel == nil {
		return nil
	}
	return m.Prog.MethodValue(sel)
}
