package sym

import "gosym/term"

func init() {
	// sort.Slice & co. use reflectlite.Swapper: replaced by an insertion sort that calls the
	// real less function (which may fork on symbolic data) and swaps through logged stores.
	sortSlice := func(fr *frame, args []Value) Value {
		m := fr.m
		xi, _ := args[0].(Iface)
		s, _ := xi.V.([]Value)
		less := args[1]
		lessAt := func(i, j int) bool {
			r := m.call(fr, fr.curPos, less, []Value{tInt(int64(i)), tInt(int64(j))})
			return m.Decide(r.(*term.Term))
		}
		for i := 1; i < len(s); i++ {
			for j := i; j > 0 && lessAt(j, j-1); j-- {
				a, b := copyVal(s[j]), copyVal(s[j-1])
				m.store(&s[j], b)
				m.store(&s[j-1], a)
			}
		}
		return nil
	}
	reg("sort.Slice", sortSlice)
	reg("sort.SliceStable", sortSlice)
	reg("sort.SliceIsSorted", func(fr *frame, args []Value) Value {
		m := fr.m
		xi, _ := args[0].(Iface)
		s, _ := xi.V.([]Value)
		for i := len(s) - 1; i > 0; i-- {
			r := m.call(fr, fr.curPos, args[1], []Value{tInt(int64(i)), tInt(int64(i - 1))})
			if m.Decide(r.(*term.Term)) {
				return term.False
			}
		}
		return term.True
	})
}
