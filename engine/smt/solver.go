// Package smt drives a persistent `z3 -in` process (with a one-shot cvc5 integer-mode
// fallback) for the symbolic executor.
package smt

import (
	"bufio"
	"bytes"
	"fmt"
	"io"
	"os"
	"os/exec"
	"regexp"
	"strconv"
	"strings"
	"time"

	"gosym/term"
)

type Result int

const (
	Unsat Result = iota
	Sat
	Unknown
)

func (r Result) String() string { return [...]string{"unsat", "sat", "unknown"}[r] }

type Stats struct {
	Queries, Sat, Unsat, Unknown int
	Fallback, FallbackDecided    int
	Errors                       int
	Seconds                      float64
	MaxQuerySeconds              float64
}

func (a *Stats) Add(b Stats) {
	a.Queries += b.Queries
	a.Sat += b.Sat
	a.Unsat += b.Unsat
	a.Unknown += b.Unknown
	a.Fallback += b.Fallback
	a.FallbackDecided += b.FallbackDecided
	a.Errors += b.Errors
	a.Seconds += b.Seconds
	if b.MaxQuerySeconds > a.MaxQuerySeconds {
		a.MaxQuerySeconds = b.MaxQuerySeconds
	}
}

type Solver struct {
	Bin       string
	TimeoutMs int
	cmd       *exec.Cmd
	in        io.WriteCloser
	out       *bufio.Reader
	gen       int
	nextID    int
	declared  map[string]bool
	script    bytes.Buffer // everything sent since the last reset (for the fallback back end)
	pending   bytes.Buffer
	Stats     Stats
	Dump      io.Writer
	UseCvc5   bool // try cvc5 --solve-bv-as-int=sum when z3 says unknown
	Cvc5Main  bool // the persistent process itself is cvc5 --incremental --solve-bv-as-int=sum
}

func (s *Solver) argv() []string {
	if s.Cvc5Main {
		return []string{"cvc5", "--incremental", "--solve-bv-as-int=sum", "--produce-models", "--lang=smt2"}
	}
	return []string{s.Bin, "-in"}
}

var genCounter = 0

func New(bin string, timeoutMs int) (*Solver, error) {
	s := &Solver{Bin: bin, TimeoutMs: timeoutMs, UseCvc5: true}
	if bin == "cvc5int" {
		s.Cvc5Main, s.UseCvc5 = true, false
	}
	if err := s.start(); err != nil {
		return nil, err
	}
	return s, nil
}

func (s *Solver) start() error {
	av := s.argv()
	s.cmd = exec.Command(av[0], av[1:]...)
	var err error
	s.in, err = s.cmd.StdinPipe()
	if err != nil {
		return err
	}
	o, err := s.cmd.StdoutPipe()
	if err != nil {
		return err
	}
	s.cmd.Stderr = os.Stderr
	s.out = bufio.NewReaderSize(o, 1<<16)
	if err := s.cmd.Start(); err != nil {
		return err
	}
	s.Reset()
	return nil
}

func (s *Solver) Close() {
	if s.cmd != nil {
		s.in.Close()
		s.cmd.Process.Kill()
		s.cmd.Wait()
		s.cmd = nil
	}
}

func (s *Solver) restart() {
	s.Close()
	if err := s.start(); err != nil {
		panic(err)
	}
}

var genSeq int64

// Reset drops all assertions and definitions.
func (s *Solver) Reset() {
	s.gen = int(nextGen())
	s.nextID = 0
	s.declared = map[string]bool{}
	s.script.Reset()
	s.pending.Reset()
	if s.Cvc5Main {
		fmt.Fprintf(&s.pending, "(reset)\n(set-option :tlimit-per %d)\n(set-logic ALL)\n", s.TimeoutMs)
		return
	}
	fmt.Fprintf(&s.pending, "(reset)\n(set-option :timeout %d)\n", s.TimeoutMs)
}

var genCh = func() chan int64 {
	c := make(chan int64)
	go func() {
		for i := int64(1); ; i++ {
			c <- i
		}
	}()
	return c
}()

func nextGen() int64 { return <-genCh }

func (s *Solver) send(line string) {
	s.pending.WriteString(line)
	s.pending.WriteByte('\n')
	s.script.WriteString(line)
	s.script.WriteByte('\n')
}

// ref emits definitions for t (if needed) and returns the SMT text naming it.
func (s *Solver) ref(t *term.Term) string {
	switch t.Op {
	case term.OConst:
		return t.Shallow(nil)
	case term.OVar:
		if !s.declared[t.Name] {
			s.declared[t.Name] = true
			s.send("(declare-const " + term.QuoteName(t.Name) + " " + term.SortOf(t.W) + ")")
		}
		return term.QuoteName(t.Name)
	}
	if t.EmitGen == s.gen {
		return "t" + strconv.Itoa(t.EmitID)
	}
	if t.Op == term.OUF {
		key := "uf:" + t.Name
		if !s.declared[key] {
			s.declared[key] = true
			var sb strings.Builder
			for _, a := range t.Args {
				sb.WriteString(term.SortOf(a.W) + " ")
			}
			s.send("(declare-fun " + term.QuoteName(t.Name) + " (" + sb.String() + ") " + term.SortOf(t.W) + ")")
		}
	}
	body := t.Shallow(s.ref)
	t.EmitGen = s.gen
	t.EmitID = s.nextID
	s.nextID++
	name := "t" + strconv.Itoa(t.EmitID)
	s.send("(define-fun " + name + " () " + term.SortOf(t.W) + " " + body + ")")
	return name
}

// Assert adds t to the permanent assertion set of the current generation.
func (s *Solver) Assert(t *term.Term) {
	if t.IsTrue() {
		return
	}
	r := s.ref(t)
	s.send("(assert " + r + ")")
}

var valRe = regexp.MustCompile(`\(\s*(\|[^|]*\||[^\s()]+)\s+(#x[0-9a-fA-F]+|#b[01]+|true|false)\s*\)`)

// Check asks whether the current assertions plus extra (may be nil) are satisfiable. If
// want is non-empty and the answer is sat, the values of those terms are returned.
func (s *Solver) Check(extra *term.Term, want []*term.Term) (Result, []uint64) {
	t0 := time.Now()
	defer func() {
		d := time.Since(t0).Seconds()
		s.Stats.Seconds += d
		if d > s.Stats.MaxQuerySeconds {
			s.Stats.MaxQuerySeconds = d
		}
	}()
	s.Stats.Queries++
	if extra != nil && extra.IsFalse() {
		s.Stats.Unsat++
		return Unsat, nil
	}
	var extraRef string
	if extra != nil && !extra.IsTrue() {
		extraRef = s.ref(extra)
	}
	refs := make([]string, len(want))
	for i, w := range want {
		refs[i] = s.ref(w)
	}
	var q bytes.Buffer
	q.WriteString("(push)\n")
	if extraRef != "" {
		q.WriteString("(assert " + extraRef + ")\n")
	}
	q.WriteString("(check-sat)\n(echo \"@@c\")\n")
	s.pending.Write(q.Bytes())
	lines := s.flushRead("@@c")
	res := Unknown
	sawErr := false
	for _, l := range lines {
		switch strings.TrimSpace(l) {
		case "sat":
			res = Sat
		case "unsat":
			res = Unsat
		case "unknown", "timeout":
			res = Unknown
		default:
			if strings.Contains(l, "(error") {
				sawErr = true
				fmt.Fprintln(os.Stderr, "smt error:", l)
			}
		}
	}
	if sawErr {
		s.Stats.Errors++
		res = Unknown
	}
	var vals []uint64
	if res == Sat && len(want) > 0 {
		vals = make([]uint64, len(want))
		// ask in chunks to keep lines manageable
		for i := 0; i < len(refs); i += 200 {
			j := i + 200
			if j > len(refs) {
				j = len(refs)
			}
			s.pending.WriteString("(get-value (" + strings.Join(refs[i:j], " ") + "))\n(echo \"@@v\")\n")
			out := strings.Join(s.flushRead("@@v"), " ")
			ms := valRe.FindAllStringSubmatch(out, -1)
			if len(ms) != j-i {
				fmt.Fprintf(os.Stderr, "smt: get-value parse mismatch: want %d got %d: %s\n", j-i, len(ms), out)
				res = Unknown
				s.Stats.Errors++
				break
			}
			for k, m := range ms {
				vals[i+k] = parseVal(m[2])
			}
		}
	}
	s.pending.WriteString("(pop)\n")
	if res == Unknown && s.UseCvc5 && !sawErr {
		s.Stats.Fallback++
		r2, v2 := s.cvc5(extraRef, refs)
		if r2 != Unknown {
			s.Stats.FallbackDecided++
			res, vals = r2, v2
		}
	}
	switch res {
	case Sat:
		s.Stats.Sat++
	case Unsat:
		s.Stats.Unsat++
	default:
		s.Stats.Unknown++
	}
	return res, vals
}

func parseVal(v string) uint64 {
	switch {
	case v == "true":
		return 1
	case v == "false":
		return 0
	case strings.HasPrefix(v, "#x"):
		u, _ := strconv.ParseUint(v[2:], 16, 64)
		return u
	case strings.HasPrefix(v, "#b"):
		u, _ := strconv.ParseUint(v[2:], 2, 64)
		return u
	}
	return 0
}

func (s *Solver) flushRead(marker string) []string {
	if s.Dump != nil {
		s.Dump.Write(s.pending.Bytes())
	}
	if _, err := s.in.Write(s.pending.Bytes()); err != nil {
		s.pending.Reset()
		fmt.Fprintln(os.Stderr, "smt: write failed, restarting solver:", err)
		s.restartReplay()
		return []string{"unknown"}
	}
	s.pending.Reset()
	var lines []string
	for {
		l, err := s.out.ReadString('\n')
		if err != nil {
			fmt.Fprintln(os.Stderr, "smt: solver died, restarting:", err)
			s.restartReplay()
			return []string{"unknown"}
		}
		l = strings.TrimRight(l, "\r\n")
		if l == marker || l == "\""+marker+"\"" {
			return lines
		}
		lines = append(lines, l)
	}
}

// restartReplay restarts the solver process and replays the current script.
func (s *Solver) restartReplay() {
	script := append([]byte(nil), s.script.Bytes()...)
	s.Close()
	av := s.argv()
	s.cmd = exec.Command(av[0], av[1:]...)
	s.in, _ = s.cmd.StdinPipe()
	o, _ := s.cmd.StdoutPipe()
	s.cmd.Stderr = os.Stderr
	s.out = bufio.NewReaderSize(o, 1<<16)
	if err := s.cmd.Start(); err != nil {
		panic(err)
	}
	s.pending.Reset()
	if s.Cvc5Main {
		fmt.Fprintf(&s.pending, "(set-option :tlimit-per %d)\n(set-logic ALL)\n", s.TimeoutMs)
	} else {
		fmt.Fprintf(&s.pending, "(set-option :timeout %d)\n", s.TimeoutMs)
	}
	s.pending.Write(script)
}

func (s *Solver) cvc5(extraRef string, refs []string) (Result, []uint64) {
	var q bytes.Buffer
	q.WriteString("(set-logic ALL)\n(set-option :produce-models true)\n")
	q.Write(s.script.Bytes())
	if extraRef != "" {
		q.WriteString("(assert " + extraRef + ")\n")
	}
	q.WriteString("(check-sat)\n")
	if len(refs) > 0 {
		q.WriteString("(get-value (" + strings.Join(refs, " ") + "))\n")
	}
	f, err := os.CreateTemp("", "gosym-cvc5-*.smt2")
	if err != nil {
		return Unknown, nil
	}
	defer os.Remove(f.Name())
	f.Write(q.Bytes())
	f.Close()
	tl := s.TimeoutMs
	if tl < 20000 {
		tl = 20000
	}
	cmd := exec.Command("cvc5", "--solve-bv-as-int=sum", "--tlimit="+strconv.Itoa(tl), f.Name())
	out, _ := cmd.CombinedOutput()
	txt := string(out)
	first := strings.TrimSpace(strings.SplitN(txt, "\n", 2)[0])
	if first == "unsat" {
		// the (get-value) that follows an unsat answer is an error by construction; ignore it
		return Unsat, nil
	}
	if strings.Contains(txt, "(error") {
		return Unknown, nil
	}
	switch first {
	case "sat":
		if len(refs) == 0 {
			return Sat, nil
		}
		ms := valRe.FindAllStringSubmatch(txt, -1)
		if len(ms) != len(refs) {
			return Unknown, nil
		}
		vals := make([]uint64, len(refs))
		for k, m := range ms {
			vals[k] = parseVal(m[2])
		}
		return Sat, vals
	}
	return Unknown, nil
}
