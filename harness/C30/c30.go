package lfs

import (
	"context"
	"encoding/json"
	"errors"
	"io"
)

// C30 — LFS readers never return a blob that fails its envelope checksum.
//
// The envelope is written for an original blob P0 with algorithm alg; each of its two checksum
// fields (sha256, checksum) is either the true digest of P0 under the relevant algorithm,
// absent, or garbage — the explorer chooses. Storage returns an arbitrary blob P of 0..2 bytes.
// With validation on, Resolver.Resolve and Consumer.Unwrap may hand out P only if the checksum
// the envelope declares matches P, i.e. (collision-freeness of the digests assumed) the field
// holds the true digest and P == P0; the resolver additionally honours its size limit.
//
// Under the executor the digest is abstract: ComputeChecksum(alg, x) is replaced by a function
// that is injective in the one question asked ("is x the original blob?"); natively the real
// hashes run. encoding/json is the engine's abstract codec (same-type round trip), and
// IsLfsEnvelope, which inspects JSON text, is answered by the harness for the blob it made.

type vsymFetcher struct{ blob []byte }

func (f *vsymFetcher) Fetch(ctx context.Context, key string) ([]byte, error) { return f.blob, nil }
func (f *vsymFetcher) Stream(ctx context.Context, key string) (io.ReadCloser, int64, error) {
	return nil, 0, errors.New("vsym: streaming not modelled")
}

var vsymAlgs = []string{"", "sha256", "SHA256", " md5 ", "crc32", "none"}

func VsymC30_Readers() {
	p0 := vsym_Bytes("original", 2)
	n := vsym_Param("blob")
	p := vsym_Bytes("stored", n)
	same := n == 2 && vsym_BytesEq(p, p0)
	if vsym_Symbolic() {
		vsym_Override("github.com/KafScale/platform/pkg/lfs.ComputeChecksum", func(alg ChecksumAlg, data []byte) (string, error) {
			if alg == ChecksumNone {
				return "", nil
			}
			if len(data) == 2 && vsym_BytesEq(data, p0) {
				return "digest-of-original-" + string(alg), nil
			}
			return "digest-of-something-else-" + string(alg), nil
		})
		vsym_Override("github.com/KafScale/platform/pkg/lfs.IsLfsEnvelope", func(value []byte) bool { return true })
	}
	algRaw := vsymAlgs[vsym_Choose("alg", len(vsymAlgs))]
	alg, err := NormalizeChecksumAlg(algRaw)
	vsym_Assert(err == nil, "C30/alg-normalises")
	trueSHA, _ := ComputeChecksum(ChecksumSHA256, p0)
	trueAlg, _ := ComputeChecksum(alg, p0)
	// the declared size is just another envelope field: it may be wrong independently of the digests
	env := Envelope{Version: 1, Bucket: "b", Key: "k", Size: int64(vsym_Choose("declared-size", 4)), ChecksumAlg: algRaw}
	switch vsym_Choose("sha256-field", 2) {
	case 0:
		env.SHA256 = trueSHA
	case 1:
		env.SHA256 = "0000"
	}
	switch vsym_Choose("checksum-field", 3) {
	case 0:
		env.Checksum = ""
	case 1:
		env.Checksum = trueAlg
	case 2:
		env.Checksum = "ffff"
	}
	value, err := json.Marshal(env)
	vsym_Assert(err == nil, "C30/envelope-encodes")
	// what the envelope declares for the blob: the checksum of its own algorithm when present,
	// else its (mandatory) sha256
	declaredHolds := false
	switch {
	case alg != ChecksumNone && env.Checksum != "":
		declaredHolds = env.Checksum == trueAlg && trueAlg != "" && same
	default:
		declaredHolds = env.SHA256 == trueSHA && same
	}
	fetcher := &vsymFetcher{blob: p}
	maxSize := int64(vsym_Param("max"))
	if vsym_Bool("use-resolver") {
		res, isEnv, err := NewResolver(ResolverConfig{MaxSize: maxSize, ValidateChecksum: true}, fetcher).Resolve(context.Background(), value)
		vsym_Assert(isEnv, "C30/envelope-recognised")
		if err == nil {
			vsym_Reach("resolved")
			vsym_Assert(vsym_BytesEq(res.Payload, p), "C30/resolver-returns-the-stored-blob")
			// Known finding class: none.
			vsym_Assert(declaredHolds, "C30/resolver-returns-only-blobs-matching-the-declared-checksum")
			vsym_Assert(maxSize <= 0 || int64(len(res.Payload)) <= maxSize, "C30/resolver-honours-size-limit")
		} else {
			vsym_Reach("rejected")
			var ce *ChecksumError
			_ = errors.As(err, &ce)
		}
		return
	}
	_, blob, err := NewConsumer(fetcher).Unwrap(context.Background(), value)
	if err == nil {
		vsym_Reach("unwrapped")
		vsym_Assert(declaredHolds, "C30/consumer-returns-only-blobs-matching-the-declared-checksum")
		vsym_Assert(vsym_BytesEq(blob, p), "C30/consumer-returns-the-stored-blob")
	} else {
		vsym_Reach("rejected")
	}
}

func VsymC30_Twin() {
	env := Envelope{Version: 1, Bucket: "b", Key: "k", SHA256: vsym_String("sha", 2)}
	alg, expected, ok, _ := EnvelopeChecksum(env)
	vsym_Assert(!ok || alg != ChecksumSHA256 || len(expected) != 2, "C30/twin")
}
