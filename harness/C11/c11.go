package main

import (
	"context"
	"encoding/binary"

	"github.com/twmb/franz-go/pkg/kmsg"

	"github.com/KafScale/platform/pkg/protocol"
)

// C11 — every advertised API version is served with a reply the standard codec decodes at that
// version, carrying the request's correlation id and the right header shape; no version,
// advertised or not, yields an undecodable reply.
//
// One run per (api key, version): the version range is read from the broker's own ApiVersions
// table (the real generateApiVersions); versions up to two past the advertised maximum are
// tried as well. The request is the codec's default for that key with one topic / partition /
// group filled in; the reply bytes are decoded by kmsg at the request's version.

func vsymC11Request(key int16) kmsg.Request {
	switch key {
	case 18:
		return kmsg.NewPtrApiVersionsRequest()
	case 10:
		r := kmsg.NewPtrFindCoordinatorRequest()
		r.CoordinatorKey = "g"
		r.CoordinatorKeys = []string{"g"}
		return r
	}
	return vsymRequestFor(int(key), "t0", "", 0)
}

func VsymC11_Served() {
	key := int16(vsym_Param("key"))
	version := int16(vsym_Param("version"))
	b := vsymNewBroker()
	min, max, found := int16(0), int16(-1), false
	for _, e := range b.h.apiVersions {
		if e.ApiKey == key {
			min, max, found = e.MinVersion, e.MaxVersion, true
		}
	}
	vsym_Assert(found && max >= 0, "C11/key-is-advertised")
	if version > max+2 {
		vsym_Assume(false)
	}
	advertised := version >= min && version <= max
	req := vsymC11Request(key)
	vsym_Assert(req != nil, "C11/request-built")
	if key == 18 && version > max {
		// KIP-511: a client newer than the broker gets UNSUPPORTED_VERSION in the v0 layout, the
		// only layout it can decode without knowing what the broker speaks
		corr := vsym_Int32("correlation")
		cid := "client"
		out, err := b.h.Handle(context.Background(), &protocol.RequestHeader{APIKey: key, APIVersion: version, CorrelationID: corr, ClientID: &cid}, req)
		vsym_Assert(err == nil && len(out) >= 4, "C11/too-new-apiversions-request-gets-a-reply")
		vsym_Assert(int32(binary.BigEndian.Uint32(out[:4])) == corr, "C11/reply-carries-correlation-id")
		v0 := kmsg.NewPtrApiVersionsResponse()
		v0.SetVersion(0)
		vsym_Assert(v0.ReadFrom(out[4:]) == nil && vsym_BytesEq(v0.AppendTo(nil), out[4:]), "C11/too-new-apiversions-request-answered-in-v0-layout")
		vsym_Assert(v0.ErrorCode == 35 && len(v0.ApiKeys) == len(b.h.apiVersions), "C11/too-new-apiversions-request-answered-in-v0-layout")
		vsym_Reach("too-new-apiversions")
		return
	}
	if version > req.MaxVersion() {
		vsym_Assume(false) // the codec itself cannot express this version
	}
	req.SetVersion(version)
	cid := "client"
	corr := vsym_Int32("correlation")
	hdr := &protocol.RequestHeader{APIKey: key, APIVersion: version, CorrelationID: corr, ClientID: &cid}
	out, err := b.h.Handle(context.Background(), hdr, req)
	if advertised {
		vsym_Reach("advertised")
		vsym_Assert(err == nil && out != nil, "C11/advertised-version-gets-a-reply")
	}
	if err != nil || out == nil {
		return
	}
	vsym_Assert(len(out) >= 4, "C11/reply-has-a-header")
	vsym_Assert(int32(binary.BigEndian.Uint32(out[:4])) == corr, "C11/reply-carries-correlation-id")
	resp := req.ResponseKind()
	resp.SetVersion(version)
	body := out[4:]
	if resp.IsFlexible() && key != 18 {
		vsym_Assert(len(body) >= 1 && body[0] == 0, "C11/flexible-reply-has-tagged-header")
		body = body[1:]
	}
	vsym_Assert(resp.ReadFrom(body) == nil, "C11/reply-decodes-at-request-version")
	// re-encoding what was decoded gives the same bytes: nothing trailing, nothing dropped
	vsym_Assert(vsym_BytesEq(resp.AppendTo(nil), body), "C11/reply-has-exactly-the-version-layout")
}

func VsymC11_Twin() {
	b := vsymNewBroker()
	vsym_Assert(len(b.h.apiVersions) == 0 || vsym_Bool("z"), "C11/twin")
}
