package main

import (
	"encoding/binary"

	"github.com/twmb/franz-go/pkg/kmsg"

	"github.com/KafScale/platform/pkg/protocol"
)

// C11 (proxy side) — the proxy answers ApiVersions itself. Two requests at the same version with
// different correlation ids (two clients handshaking at once): each reply decodes at the request's
// version, lists the proxy's table and carries ITS request's correlation id — also after the
// other reply has been produced (a reply handed out is not rewritten).
func VsymC11_ProxyApiVersions() {
	version := int16(vsym_Param("version"))
	p := &proxy{apiVersions: generateProxyApiVersions()}
	min, max := int16(0), int16(-1)
	for _, e := range p.apiVersions {
		if e.ApiKey == protocol.APIKeyApiVersion {
			min, max = e.MinVersion, e.MaxVersion
		}
	}
	vsym_Assert(max >= 0 && min == 0, "C11/key-is-advertised")
	if version > max {
		return
	}
	c1, c2 := vsym_Int32("correlation1"), vsym_Int32("correlation2")
	cid := "client"
	r1, err1 := p.handleApiVersions(&protocol.RequestHeader{APIKey: 18, APIVersion: version, CorrelationID: c1, ClientID: &cid})
	vsym_Assert(err1 == nil && len(r1) >= 4, "C11/advertised-version-gets-a-reply")
	r2, err2 := p.handleApiVersions(&protocol.RequestHeader{APIKey: 18, APIVersion: version, CorrelationID: c2, ClientID: &cid})
	vsym_Assert(err2 == nil && len(r2) >= 4, "C11/advertised-version-gets-a-reply")
	vsym_Assert(int32(binary.BigEndian.Uint32(r1[:4])) == c1, "C11/reply-carries-correlation-id")
	vsym_Assert(int32(binary.BigEndian.Uint32(r2[:4])) == c2, "C11/reply-carries-correlation-id")
	for _, out := range [][]byte{r1, r2} {
		resp := kmsg.NewPtrApiVersionsResponse()
		resp.SetVersion(version)
		vsym_Assert(resp.ReadFrom(out[4:]) == nil, "C11/reply-decodes-at-request-version")
		vsym_Assert(vsym_BytesEq(resp.AppendTo(nil), out[4:]), "C11/reply-has-exactly-the-version-layout")
		vsym_Assert(resp.ErrorCode == 0 && len(resp.ApiKeys) == len(p.apiVersions), "C11/proxy-lists-its-table")
		for i, e := range resp.ApiKeys {
			vsym_Assert(e.ApiKey == p.apiVersions[i].ApiKey && e.MinVersion == p.apiVersions[i].MinVersion && e.MaxVersion == p.apiVersions[i].MaxVersion, "C11/proxy-lists-its-table")
		}
	}
	vsym_Reach("proxy-apiversions")
}
