package metadata

import (
	"context"
)

// C20 — proxy routing tables converge to the current lease owners.
//
// The real NewPartitionRouter (loadAll, then a watch goroutine) runs against the etcd model.
// Lease keys change (puts and deletes over two partitions and two brokers, chosen by the
// explorer) at three kinds of moments: before the router starts, at any scheduling point while
// it starts (in particular between its initial Get and its Watch), and after it is running;
// optionally the watch stream is interrupted once. When nothing changes any more and every
// logical thread is idle, the routing table must equal the owners recorded in etcd.

var vsymC20Keys = []string{partitionLeasePrefix + "/orders/0", partitionLeasePrefix + "/orders/1"}

func vsymC20Change(e *vsymEtcd, tag string) {
	k := vsymC20Keys[vsym_Choose(tag+"-key", 2)]
	switch vsym_Choose(tag+"-op", 3) {
	case 0:
		e.put(k, []byte("broker-a"), 0)
	case 1:
		e.put(k, []byte("broker-b"), 0)
	case 2:
		e.del(k, "")
	}
}

func VsymC20_Converges() {
	e := newVsymEtcd()
	cli := e.client("proxy")
	nBefore, nDuring, nAfter := vsym_Param("before"), vsym_Param("during"), vsym_Param("after")
	for i := 0; i < nBefore; i++ {
		vsymC20Change(e, "before")
	}
	vsym_ExploreEvents()
	vsym_PreemptionBound(3)
	// every etcd call of the router is a scheduling point: the "during" changes run as their own
	// logical thread and may land before the Get, between Get and Watch, or after
	e.onOp = func(op, key string) { vsym_Event("etcd-" + op) }
	vsym_Go(func() {
		for i := 0; i < nDuring; i++ {
			vsym_Event("change")
			vsymC20Change(e, "during")
		}
	})
	ctx, cancel := context.WithCancel(context.Background())
	r, err := NewPartitionRouter(ctx, cli, nil)
	vsym_Assert(err == nil, "C20/router-starts")
	vsym_Join()
	if vsym_Param("interrupt") == 1 {
		e.interruptWatches()
		vsym_Settle()
	}
	for i := 0; i < nAfter; i++ {
		vsymC20Change(e, "after")
	}
	vsym_Settle() // let the watch goroutine drain every delivered event
	vsym_Reach("quiescent")
	for _, k := range vsymC20Keys {
		want := ""
		if en, ok := e.data[k]; ok {
			want = string(en.value)
		}
		rk, _ := leaseKeyToRouteKey(k)
		topic, part, _ := parsePartitionKey(rk)
		vsym_Assert(r.LookupOwner(topic, part) == want, "C20/routing-table-matches-etcd-at-quiescence")
	}
	cancel()
}

func VsymC20_Twin() {
	e := newVsymEtcd()
	e.put(vsymC20Keys[0], []byte("broker-a"), 0)
	r, err := NewPartitionRouter(context.Background(), e.client("proxy"), nil)
	vsym_Assert(err != nil || r.LookupOwner("orders", 0) != "broker-a" || vsym_Bool("z"), "C20/twin")
}
