package metadata

import (
	"context"
)

// C20 — proxy routing tables converge to the current lease owners.
//
// The real NewPartitionRouter (loadAll, then a watch goroutine) runs against the etcd model.
// Lease keys change (puts and deletes over two partitions and two brokers, chosen by the
// explorer) at three kinds of moments: before the router starts, at any scheduling point while
// it starts (in particular between its initial Get and its Watch), and after it is running;
// optionally the watch stream is interrupted once. When nothing changes any more and every
// logical thread is idle, the routing table must equal the owners recorded in etcd.

var vsymC20Keys = []string{partitionLeasePrefix + "/orders/0", partitionLeasePrefix + "/orders/1"}

// vsymC20UseGroups switches the harness to the group router's keys (set before the run starts)
func vsymC20UseGroups() {
	vsymC20Keys = []string{groupLeasePrefix + "/g0", groupLeasePrefix + "/g1"}
}

func vsymC20Change(e *vsymEtcd, tag string) {
	op := vsym_Choose(tag+"-op", 8)
	k := vsymC20Keys[op&1]
	switch op >> 1 {
	case 0:
		e.put(k, []byte("broker-a"), 0)
	case 1:
		e.put(k, []byte("broker-b"), 0)
	case 2:
		e.del(k, "")
	}
	switch op {
	case 6: // one transaction gives broker-a both partitions (one revision)
		e.atomically(func() {
			e.put(vsymC20Keys[0], []byte("broker-a"), 0)
			e.put(vsymC20Keys[1], []byte("broker-a"), 0)
		})
	case 7: // a session ends: every lease key goes in one revision
		e.atomically(func() {
			e.del(vsymC20Keys[0], "")
			e.del(vsymC20Keys[1], "")
		})
	}
}

func VsymC20_Converges() {
	groups := vsym_Param("router") == 1
	vsymC20Keys = []string{partitionLeasePrefix + "/orders/0", partitionLeasePrefix + "/orders/1"}
	if groups {
		vsymC20UseGroups()
	}
	e := newVsymEtcd()
	cli := e.client("proxy")
	nBefore, nDuring, nAfter := vsym_Param("before"), vsym_Param("during"), vsym_Param("after")
	// the shapes explored (the full product is too large): changes while the router starts are
	// combined with at most one other change, and not with a change in a stream gap
	if nDuring == 1 && (nBefore+nAfter >= 2 || vsym_Param("interrupt") == 2) {
		return
	}
	if groups && nDuring == 1 && nBefore+nAfter > 0 {
		return
	}
	for i := 0; i < nBefore; i++ {
		vsymC20Change(e, "before")
	}
	vsym_ExploreEvents()
	vsym_PreemptionBound(3)
	// every etcd call of the router is a scheduling point: the "during" changes run as their own
	// logical thread and may land before the Get, between Get and Watch, or after
	e.onOp = func(op, key string) { vsym_Event("etcd-" + op) }
	vsym_Go(func() {
		for i := 0; i < nDuring; i++ {
			vsym_Event("change")
			vsymC20Change(e, "during")
		}
	})
	ctx, cancel := context.WithCancel(context.Background())
	var r *PartitionRouter
	var gr *GroupRouter
	var err error
	if groups {
		gr, err = NewGroupRouter(ctx, cli, nil)
	} else {
		r, err = NewPartitionRouter(ctx, cli, nil)
	}
	vsym_Assert(err == nil, "C20/router-starts")
	vsym_Join()
	switch vsym_Param("interrupt") {
	case 1:
		e.interruptWatches()
		vsym_Settle()
	case 2:
		// the stream breaks and a change lands before the router has re-established it
		e.interruptWatches()
		vsymC20Change(e, "gap")
		vsym_Settle()
	}
	for i := 0; i < nAfter; i++ {
		vsymC20Change(e, "after")
	}
	vsym_Settle() // let the watch goroutine drain every delivered event
	vsym_Reach("quiescent")
	for _, k := range vsymC20Keys {
		want := ""
		if en, ok := e.data[k]; ok {
			want = string(en.value)
		}
		if groups {
			id, _ := groupLeaseKeyToGroupID(k)
			vsym_Assert(gr.LookupOwner(id) == want, "C20/routing-table-matches-etcd-at-quiescence")
			continue
		}
		rk, _ := leaseKeyToRouteKey(k)
		topic, part, _ := parsePartitionKey(rk)
		vsym_Assert(r.LookupOwner(topic, part) == want, "C20/routing-table-matches-etcd-at-quiescence")
	}
	cancel()
}

func VsymC20_Twin() {
	e := newVsymEtcd()
	e.put(vsymC20Keys[0], []byte("broker-a"), 0)
	r, err := NewPartitionRouter(context.Background(), e.client("proxy"), nil)
	vsym_Assert(err != nil || r.LookupOwner("orders", 0) != "broker-a" || vsym_Bool("z"), "C20/twin")
}
