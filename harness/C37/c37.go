package proxy

import (
	"context"
	"encoding/binary"
	"errors"
	"io"
	"log"
	"net"
	"strings"
	"time"

	"github.com/jackc/pgproto3/v2"

	"github.com/kafscale/platform/addons/processors/sql-processor/internal/config"
	kafsql "github.com/kafscale/platform/addons/processors/sql-processor/internal/sql"
)

// C37 — the SQL proxy forwards only queries whose topics are all allowed.
//
// The real Server.handleConn serves one client connection: a scripted client sends the startup
// message, two simple queries and Terminate; a scripted upstream behind Server.dialer answers
// the handshake, records the text of every Query message it receives and answers it. The
// queries are built by the explorer from templates over an allowed topic and a topic the ACL does
// not allow (plain select in lower / upper case keywords, a case variant of the allowed topic's
// name, joins and explain with a run of 600 blanks before the interesting clause, describe, show
// partitions, show topics, set, a catalog query); the decision cache is on or off.
// Checked at the upstream: every forwarded text reads — by the upstream's own rules (catalog
// queries list every topic, SET/RESET read nothing, everything else is what sql.Parse makes of
// exactly that text) — only topics the ACL allows.

type vsymC37Conn struct {
	in      []byte // bytes the peer will read
	written []byte
	onWrite func(c *vsymC37Conn)
	closed  bool
}

func (c *vsymC37Conn) Read(p []byte) (int, error) {
	if len(c.in) == 0 {
		return 0, io.EOF
	}
	n := copy(p, c.in)
	c.in = c.in[n:]
	return n, nil
}
func (c *vsymC37Conn) Write(p []byte) (int, error) {
	if c.closed {
		return 0, errors.New("vsym: closed")
	}
	c.written = append(c.written, p...)
	if c.onWrite != nil {
		c.onWrite(c)
	}
	return len(p), nil
}
func (c *vsymC37Conn) Close() error                       { c.closed = true; return nil }
func (c *vsymC37Conn) LocalAddr() net.Addr                { return vsymC37Addr{} }
func (c *vsymC37Conn) RemoteAddr() net.Addr               { return vsymC37Addr{} }
func (c *vsymC37Conn) SetDeadline(t time.Time) error      { return nil }
func (c *vsymC37Conn) SetReadDeadline(t time.Time) error  { return nil }
func (c *vsymC37Conn) SetWriteDeadline(t time.Time) error { return nil }

type vsymC37Addr struct{}

func (vsymC37Addr) Network() string { return "vsym" }
func (vsymC37Addr) String() string  { return "client:1" }

// the upstream: a state machine over what the proxy writes to it
type vsymC37Upstream struct {
	conn      *vsymC37Conn
	startedUp bool
	queries   []string
}

func (u *vsymC37Upstream) feed(c *vsymC37Conn) {
	for {
		b := c.written
		if !u.startedUp {
			if len(b) < 4 {
				return
			}
			n := int(binary.BigEndian.Uint32(b[:4]))
			if len(b) < n {
				return
			}
			c.written = b[n:]
			u.startedUp = true
			out, _ := (&pgproto3.AuthenticationOk{}).Encode(nil)
			out, _ = (&pgproto3.ReadyForQuery{TxStatus: 'I'}).Encode(out)
			c.in = append(c.in, out...)
			continue
		}
		if len(b) < 5 {
			return
		}
		n := int(binary.BigEndian.Uint32(b[1:5]))
		if len(b) < 1+n {
			return
		}
		typ, body := b[0], b[5:1+n]
		c.written = b[1+n:]
		if typ == 'Q' {
			text := string(body)
			if i := strings.IndexByte(text, 0); i >= 0 {
				text = text[:i]
			}
			u.queries = append(u.queries, text)
			out, _ := (&pgproto3.CommandComplete{CommandTag: []byte("SELECT 0")}).Encode(nil)
			out, _ = (&pgproto3.ReadyForQuery{TxStatus: 'I'}).Encode(out)
			c.in = append(c.in, out...)
		}
	}
}

// what the upstream SQL server reads for a query text (server.handleQuery: catalog queries first,
// then SET/RESET, then sql.Parse of exactly that text)
func vsymC37UpstreamReads(text string) (topics []string, everyTopic bool) {
	trimmed := strings.TrimSpace(text)
	lower := strings.ToLower(strings.TrimSuffix(trimmed, ";"))
	if strings.Contains(lower, "pg_catalog") || strings.Contains(lower, "information_schema") {
		return nil, true
	}
	l2 := strings.ToLower(trimmed)
	if trimmed == "" || strings.HasPrefix(l2, "set ") || strings.HasPrefix(l2, "reset ") {
		return nil, false
	}
	parsed, err := kafsql.Parse(text)
	if err != nil {
		return nil, false // the upstream answers with a parse error and reads nothing
	}
	return vsymC37Topics(parsed)
}

// the harness's own reading of a parsed query (not the proxy's queryTopics, which is under test)
func vsymC37Topics(q kafsql.Query) ([]string, bool) {
	switch q.Type {
	case kafsql.QueryShowTopics:
		return nil, true
	case kafsql.QueryExplain:
		if q.Explain == nil {
			return nil, false
		}
		return vsymC37Topics(*q.Explain)
	}
	var out []string
	if q.Topic != "" {
		out = append(out, q.Topic)
	}
	if q.JoinTopic != "" {
		out = append(out, q.JoinTopic)
	}
	return out, false
}

func vsymC37Query(tag string) string {
	pad := strings.Repeat(" ", 600)
	qs := []string{
		"select * from orders limit 5",
		"SELECT * FROM orders limit 5",
		"select * from Orders limit 5", // topic names are case-sensitive: not the allowed topic
		"select * from secret limit 5",
		"select * from orders o" + pad + "join secret s on o._key = s._key within 10m last 1h",
		"select * from orders o" + pad + "join orders s on o._key = s._key within 10m last 1h",
		"explain select * from" + pad + "secret last 1h",
		"explain select * from orders o join secret s on o._key = s._key within 10m last 1h",
		"describe secret",
		"show partitions from secret",
		"show topics",
		"set x = 1",
		"select * from information_schema.tables",
		// the upstream treats any text that mentions a catalog schema as a catalog query
		"select * from orders where _key = 'pg_catalog.pg_tables' limit 5",
	}
	return qs[vsym_Choose(tag+"-query", len(qs))]
}

func VsymC37_Forwarded() {
	if vsym_Symbolic() {
		vsym_Override("time.Now", func() time.Time { return time.Unix(1700000000, 0) })
	}
	cfg := config.ProxyConfig{Upstreams: []string{"up:5432"}}
	cfg.ACL.Allow = []string{"orders"}
	if vsym_Bool("cache-on") {
		cfg.CacheTTLSeconds, cfg.CacheMaxEntries = 60, 8
	}
	srv := New(cfg, log.New(io.Discard, "", 0))
	up := &vsymC37Upstream{}
	up.conn = &vsymC37Conn{onWrite: up.feed}
	srv.dialer = func(ctx context.Context, addr string) (net.Conn, error) { return up.conn, nil }
	// the client's script
	var script []byte
	script, _ = (&pgproto3.StartupMessage{ProtocolVersion: pgproto3.ProtocolVersionNumber, Parameters: map[string]string{"user": "u"}}).Encode(script)
	nq := vsym_Param("queries")
	var sent []string
	for i := 0; i < nq; i++ {
		q := vsymC37Query("q")
		sent = append(sent, q)
		script, _ = (&pgproto3.Query{String: q}).Encode(script)
	}
	script, _ = (&pgproto3.Terminate{}).Encode(script)
	client := &vsymC37Conn{in: script}
	err := srv.handleConn(context.Background(), client)
	vsym_Assert(err == nil, "C37/connection-served")
	vsym_Reach("served")
	acl := ACL{Allow: cfg.ACL.Allow, Deny: cfg.ACL.Deny}
	for _, text := range up.queries {
		vsym_Reach("forwarded")
		was := false
		for _, q := range sent {
			was = was || q == text
		}
		vsym_Assert(was, "C37/forwarded-text-is-a-text-the-client-sent")
		topics, every := vsymC37UpstreamReads(text)
		if every {
			vsym_Assert(acl.AllowShowTopics(), "C37/forwarded-query-reads-only-allowed-topics")
		}
		for _, tp := range topics {
			vsym_Assert(acl.Allows(tp), "C37/forwarded-query-reads-only-allowed-topics")
		}
	}
}

func VsymC37_Twin() {
	ok, _, _, _ := authorizeQuery(ACL{Allow: []string{"orders"}}, "select * from orders")
	vsym_Assert(!ok || vsym_Bool("z"), "C37/twin")
}
