package storage

// C04 — a fetch below the high watermark always makes progress.
//
// A segment of nb batches with symbolic sizes and message counts is indexed by the real
// IndexBuilder; for every fetch offset inside the segment and every positive byte limit the
// byte range chosen by computeSegmentRange (used by both the cached and the range-read path)
// must contain the first byte of the batch holding the offset.

func vsymC04(nb int) {
	interval := vsym_Int32("interval")
	vsym_Assume(interval >= 1 && interval <= 200)
	ib := NewIndexBuilder(interval)
	pos := make([]int64, nb+1)
	base := make([]int64, nb+1)
	pos[0] = 32
	base[0] = vsym_Int64("base0")
	vsym_Assume(base[0] >= 0 && base[0] < 1<<40)
	for i := 0; i < nb; i++ {
		size := vsym_Int64("size")
		cnt := vsym_Int32("cnt")
		vsym_Assume(size >= 61 && size <= 1<<20)
		vsym_Assume(cnt >= 1 && cnt <= 200)
		ib.MaybeAdd(base[i], int32(pos[i]), cnt)
		pos[i+1] = pos[i] + size
		base[i+1] = base[i] + int64(cnt)
	}
	seg := segmentRange{baseOffset: base[0], lastOffset: base[nb] - 1, size: pos[nb] + segmentFooterLen}
	o := vsym_Int64("o")
	vsym_Assume(o >= base[0] && o <= seg.lastOffset)
	maxBytes := vsym_Int32("maxBytes")
	vsym_Assume(maxBytes > 0)
	l := &PartitionLog{}
	start, end := l.computeSegmentRange(seg, ib.Entries(), o, maxBytes)
	want := pos[0]
	for i := 0; i < nb; i++ {
		want = vsym_Ite64(o >= base[i], pos[i], want)
	}
	vsym_Reach("range")
	vsym_Assert(start >= 32, "C04/range-inside-body")
	vsym_Assert(end < seg.size-segmentFooterLen, "C04/range-excludes-footer")
	vsym_Assert(start <= want, "C04/starts-at-or-before-batch")
	// Known finding: with a sparse index the range starts at an earlier index entry and a byte
	// limit smaller than the distance to the batch of o cuts the range before that batch.
	vsym_Known("C04-sparse-index-small-limit", vsym_And(start <= want, vsym_And(int64(maxBytes) < want-start+1, end == start+int64(maxBytes)-1)))
	vsym_Assert(want <= end, "C04/contains-batch-start")
	rr, rng := l.segmentRangeForOffset(seg, ib.Entries(), o, maxBytes)
	vsym_Assert(rr && rng.Start == start && rng.End == end, "C04/range-read-agrees")
}

func VsymC04_Progress() { vsymC04(vsym_Param("nb")) }

func VsymC04_Twin() {
	ib := NewIndexBuilder(1)
	ib.MaybeAdd(0, 32, 1)
	l := &PartitionLog{}
	start, _ := l.computeSegmentRange(segmentRange{baseOffset: 0, lastOffset: 0, size: 32 + 70 + segmentFooterLen}, ib.Entries(), vsym_Int64("o"), 10)
	vsym_Assert(start != 32, "C04/twin")
}

// VsymC04_Read: the same question through the real PartitionLog.Read over a log built by the
// real append/flush path (see harness/stor/read.go): segment lookup, gap snap-forward, cached and
// range-read paths, write buffer.
func VsymC04_Read() {
	interval := int32(1)
	if vsym_Param("sparse") == 1 {
		interval = 100
	}
	w := vsymBuildReadWorld(interval, vsym_Param("cache") == 1, vsym_Param("hole") == 1, vsym_Param("restart") == 1)
	vsymCheckRead(w, 4)
}
