package storage

import (
	"context"
	"encoding/binary"
	"hash/crc32"
	"strings"
	"time"
)

// C08 — point-in-time restore copies an exact, valid prefix or nothing.

// K: truncateRecordBatchToTimestamp on a well-formed uncompressed batch of n records whose
// timestamp deltas are symbolic (non-negative, non-decreasing is NOT assumed) and whose header
// maxTimestamp is the true maximum; cutoff symbolic.
func VsymC08_Truncate() {
	n := vsym_Param("records")
	firstTs := vsym_Int64("firstTimestamp")
	vsym_Assume(vsym_And(firstTs >= 0, firstTs < 1<<50))
	var recs []vsymRec
	var ends []int // byte offset (within the record area) after record i
	maxTs := firstTs
	area := 0
	for i := 0; i < n; i++ {
		d := vsym_Int64("tsDelta")
		vsym_Assume(vsym_And(d >= 0, d <= 63))
		// offset deltas increase but need not be dense (a compacted or mirrored batch has gaps)
		gap := vsym_Int32("offsetGap")
		vsym_Assume(vsym_And(gap >= 0, gap <= 3))
		od := gap
		if i > 0 {
			od = recs[i-1].offDelta + 1 + gap
		}
		r := vsymRec{tsDelta: d, offDelta: od, value: vsym_Bytes("value", 1)}
		recs = append(recs, r)
		area += len(vsymEncodeRecord(r))
		ends = append(ends, area)
		maxTs = vsym_Ite64(firstTs+d > maxTs, firstTs+d, maxTs)
	}
	batch := vsymEncodeBatch(vsym_Int64("baseOffset"), firstTs, recs)
	vsymPut64(batch, 35, uint64(maxTs))
	cutoff := vsym_Int64("cutoff")
	vsym_Assume(vsym_And(cutoff >= 0, cutoff < 1<<51))
	// attributes: any codec in the low three bits. A compressed batch cannot be cut (its records
	// are not scannable): it is kept whole, dropped whole, or the restore fails — never rewritten.
	attrs := vsym_Uint16("attributes")
	batch[21], batch[22] = byte(attrs>>8), byte(attrs)
	orig := append([]byte(nil), batch...)
	got, keep, done, err := truncateRecordBatchToTimestamp(batch, cutoff)
	if attrs&7 != 0 {
		vsym_Reach("compressed")
		straddles := vsym_And(firstTs <= cutoff, maxTs > cutoff)
		vsym_Assert(vsym_Implies(straddles, err != nil), "C08/compressed-batch-is-never-cut")
		if err == nil && keep {
			vsym_Assert(vsym_BytesEq(got.Bytes, orig) && len(got.Bytes) == len(orig), "C08/compressed-batch-kept-byte-identical")
		}
		return
	}
	vsym_Assert(err == nil, "C08/well-formed-batch-accepted")
	vsym_Reach("truncated")
	// reference: the longest prefix of records none of which is later than the cutoff
	k := 0
	for k < n && firstTs+recs[k].tsDelta <= cutoff {
		k++
	}
	if k == 0 {
		vsym_Assert(!keep, "C08/nothing-kept-when-first-record-is-later")
		return
	}
	vsym_Assert(keep, "C08/prefix-kept")
	if k < n {
		vsym_Assert(done, "C08/scan-stops-at-first-later-record")
	}
	b := got.Bytes
	vsym_Assert(len(b) == 61+ends[k-1], "C08/kept-exactly-the-prefix")
	vsym_Assert(vsym_BytesEq(b[61:], orig[61:61+ends[k-1]]), "C08/kept-records-byte-identical")
	vsym_Assert(vsym_BytesEq(b[0:8], orig[0:8]) && vsym_BytesEq(b[12:17], orig[12:17]) && vsym_BytesEq(b[21:23], orig[21:23]) && vsym_BytesEq(b[27:35], orig[27:35]) && vsym_BytesEq(b[43:57], orig[43:57]), "C08/untouched-header-fields")
	vsym_Assert(int(binary.BigEndian.Uint32(b[8:12])) == len(b)-12, "C08/batch-length-valid")
	vsym_Assert(int32(binary.BigEndian.Uint32(b[57:61])) == int32(k), "C08/record-count-valid")
	vsym_Assert(int32(binary.BigEndian.Uint32(b[23:27])) == recs[k-1].offDelta, "C08/last-offset-delta-valid")
	wantMax := firstTs
	for i := 0; i < k; i++ {
		wantMax = vsym_Ite64(firstTs+recs[i].tsDelta > wantMax, firstTs+recs[i].tsDelta, wantMax)
	}
	if k < n {
		vsym_Assert(int64(binary.BigEndian.Uint64(b[35:43])) == wantMax, "C08/max-timestamp-valid")
		vsym_Assert(binary.BigEndian.Uint32(b[17:21]) == crc32.Checksum(b[21:], crcTable), "C08/crc-valid")
	}
	vsym_Assert(got.LastOffsetDelta == recs[k-1].offDelta && got.MessageCount == int32(k), "C08/parsed-metadata-consistent")
}

// H: RecoverTopicToTimestamp over the S3 model with one injected failure at a solver-chosen
// operation (list, download, upload): on error no object remains under the target topic; on
// success every fully copied segment and index is byte-identical to its source and the last
// one is the source cut at the first record later than the restore time.
type vsymFlakyS3 struct {
	*vsymS3
	failed bool
}

func (f *vsymFlakyS3) maybe() bool {
	if !f.failed && vsym_Bool("fail-here") {
		f.failed = true
		return true
	}
	return false
}
func (f *vsymFlakyS3) UploadSegment(ctx context.Context, key string, body []byte) error {
	if f.maybe() {
		return vsymErrS3
	}
	return f.vsymS3.UploadSegment(ctx, key, body)
}
func (f *vsymFlakyS3) UploadIndex(ctx context.Context, key string, body []byte) error {
	if f.maybe() {
		return vsymErrS3
	}
	return f.vsymS3.UploadIndex(ctx, key, body)
}
func (f *vsymFlakyS3) DownloadSegment(ctx context.Context, key string, rng *ByteRange) ([]byte, error) {
	if f.maybe() {
		return nil, vsymErrS3
	}
	return f.vsymS3.DownloadSegment(ctx, key, rng)
}
func (f *vsymFlakyS3) DownloadIndex(ctx context.Context, key string) ([]byte, error) {
	if f.maybe() {
		return nil, vsymErrS3
	}
	return f.vsymS3.DownloadIndex(ctx, key)
}
func (f *vsymFlakyS3) ListSegments(ctx context.Context, prefix string) ([]S3Object, error) {
	if f.maybe() {
		return nil, vsymErrS3
	}
	return f.vsymS3.ListSegments(ctx, prefix)
}

func vsymC08Segment(s3 *vsymS3, part int32, base int64, createdMs int64, tss []int64) {
	var batches []RecordBatch
	off := base
	for _, ts := range tss {
		raw := vsymEncodeBatch(off, ts, []vsymRec{{tsDelta: 0, offDelta: 0, value: []byte{byte(off)}}})
		rb, _ := NewRecordBatchFromBytes(raw)
		batches = append(batches, rb)
		off++
	}
	art, err := BuildSegment(SegmentWriterConfig{IndexIntervalMessages: 1}, batches, time.UnixMilli(createdMs))
	vsym_Assert(err == nil, "C08/setup-segment")
	s3.objs[segmentObjectKey("ns", "src", part, base)] = art.SegmentBytes
	s3.objs[segmentIndexKey("ns", "src", part, base)] = art.IndexBytes
}

func VsymC08_Recover() {
	base := newVsymS3()
	// partition 0: two segments (created at 1000 and 2000 ms), partition 1: one segment
	skew := vsym_Bool("segment-creation-times-out-of-order")
	if skew {
		// broker clocks disagreed: the earlier segment carries the later creation time and a
		// record later than the other segment's
		vsymC08Segment(base, 0, 0, 2500, []int64{900, 2400})
		vsymC08Segment(base, 0, 2, 1500, []int64{1400, 1450, 1480})
	} else {
		vsymC08Segment(base, 0, 0, 1000, []int64{900, 950})
		vsymC08Segment(base, 0, 2, 2000, []int64{1900, 1950, 2100})
	}
	vsymC08Segment(base, 1, 0, 1500, []int64{1400, 1600})
	s3 := &vsymFlakyS3{vsymS3: base}
	if !vsym_Bool("faults") {
		s3.failed = true // no failure will be injected
	}
	tms := vsym_Int64("restoreTo")
	vsym_Assume(vsym_And(tms >= 1, tms <= 3000))
	cfg := TopicRecoveryConfig{SourceNamespace: "ns", SourceTopic: "src", TargetTopic: "dst", RestoreTo: time.UnixMilli(tms)}
	if vsym_Bool("only-partition-0") {
		cfg.Partitions = []int32{0}
	}
	res, err := RecoverTopicToTimestamp(context.Background(), s3, cfg)
	targets := 0
	for k := range base.objs {
		if strings.HasPrefix(k, "ns/dst/") {
			targets++
		}
	}
	if err != nil {
		vsym_Reach("failed")
		vsym_Assert(targets == 0, "C08/failed-restore-leaves-no-target-objects")
		return
	}
	vsym_Reach("restored")
	vsym_Assert(res != nil, "C08/result-returned")
	stride := len(vsymEncodeBatch(0, 0, []vsymRec{{value: []byte{0}}}))
	// every target object is a prefix-faithful copy of its source
	for k, v := range base.objs {
		if !strings.HasPrefix(k, "ns/dst/") {
			continue
		}
		src, ok := base.objs["ns/src/"+k[len("ns/dst/"):]]
		vsym_Assert(ok, "C08/target-object-has-a-source")
		if strings.HasSuffix(k, ".kfs") {
			tb, sb := v[32:len(v)-16], src[32:len(src)-16]
			vsym_Assert(len(tb) <= len(sb) && vsym_BytesEq(tb, sb[:len(tb)]), "C08/target-body-is-a-prefix-of-source-body")
			// no kept record is later than the restore time; the first dropped one is
			for off := 0; off < len(tb); off += stride {
				ts := int64(binary.BigEndian.Uint64(tb[off+27 : off+35]))
				vsym_Assert(ts <= tms, "C08/no-restored-record-later-than-restore-time")
			}
			last, perr := parseSegmentFooter(v[len(v)-16:])
			vsym_Assert(perr == nil && last == int64(binary.BigEndian.Uint64(v[8:16]))+int64(len(tb)/stride)-1, "C08/target-footer-matches-kept-records")
		}
	}
	if skew {
		return
	}
	// partition 0, first segment: kept whole whenever the second one is a candidate too
	if tms >= 2000 {
		_, ok := base.objs[segmentObjectKey("ns", "dst", 0, 0)]
		vsym_Assert(ok, "C08/earlier-segments-copied-whole")
	}
	// a record not later than the restore time in a candidate segment is restored
	if tms >= 950 {
		seg, ok := base.objs[segmentObjectKey("ns", "dst", 0, 0)]
		vsym_Assert(ok && len(seg) == 32+2*stride+16, "C08/records-not-later-than-restore-time-are-kept")
	}
}

// S: collectRecoverableBatches over a whole segment of nb batches x 2 records whose timestamps
// are symbolic and NOT monotone across batches (client-supplied CreateTime): the result is the
// records before the first one later than the cutoff, in order, and nothing after the cut.
func VsymC08_Collect() {
	nb := vsym_Param("batches")
	cutoff := vsym_Int64("cutoff")
	vsym_Assume(vsym_And(cutoff >= 0, cutoff < 1<<40))
	var body []byte
	type rec struct {
		ts  int64
		off int64
	}
	var all []rec
	var raws [][]byte
	off := int64(10)
	for b := 0; b < nb; b++ {
		first := vsym_Int64("firstTs")
		vsym_Assume(vsym_And(first >= 0, first < 1<<40))
		d := vsym_Int64("tsDelta")
		vsym_Assume(vsym_And(d >= 0, d <= 63))
		raw := vsymEncodeBatch(off, first, []vsymRec{{tsDelta: 0, offDelta: 0, value: []byte{byte(2 * b)}}, {tsDelta: d, offDelta: 1, value: []byte{byte(2*b + 1)}}})
		vsymPut64(raw, 35, uint64(first+d))
		all = append(all, rec{first, off}, rec{first + d, off + 1})
		raws = append(raws, raw)
		body = append(body, raw...)
		off += 2
	}
	seg := vsymWrapSegment(body, 10, off-1)
	got, err := collectRecoverableBatches(seg, cutoff)
	vsym_Assert(err == nil, "C08/well-formed-segment-accepted")
	// reference: number of records before the first one later than the cutoff
	k := 0
	for k < len(all) && all[k].ts <= cutoff {
		k++
	}
	vsym_Reach("collected")
	kept := 0
	for bi, rb := range got {
		vsym_Assert(bi < nb && rb.BaseOffset == int64(10+2*bi), "C08/restored-batches-are-an-offset-contiguous-prefix")
		vsym_Assert(rb.MessageCount >= 1 && rb.MessageCount <= 2 && rb.LastOffsetDelta == rb.MessageCount-1, "C08/parsed-metadata-consistent")
		if rb.MessageCount == 1 {
			vsym_Assert(bi == len(got)-1, "C08/only-the-last-restored-batch-is-cut")
		}
		kept += int(rb.MessageCount)
		one := len(raws[bi]) - (len(raws[bi])-61)/2
		if rb.MessageCount == 2 {
			one = len(raws[bi])
		}
		vsym_Assert(len(rb.Bytes) == one && vsym_BytesEq(rb.Bytes[61:], raws[bi][61:one]), "C08/kept-records-byte-identical")
	}
	vsym_Assert(kept == k, "C08/restored-records-are-exactly-those-before-the-first-later-one")
}

func VsymC08_Twin() {
	batch := vsymEncodeBatch(0, 100, []vsymRec{{tsDelta: 0, value: []byte{1}}, {tsDelta: 50, offDelta: 1, value: []byte{2}}})
	vsymPut64(batch, 35, 150)
	_, keep, _, err := truncateRecordBatchToTimestamp(batch, vsym_Int64("cutoff"))
	vsym_Assert(err != nil || !keep, "C08/twin")
}
