package broker

// fields used by individual properties' drivers
type vsymExtra struct{}
