package broker

import (
	"context"
	"encoding/binary"
	"sort"
	"time"

	"github.com/twmb/franz-go/pkg/kmsg"

	"github.com/KafScale/platform/pkg/metadata"
	"github.com/KafScale/platform/pkg/protocol"
)

// Shared driver for the consumer-group coordinator properties (C12–C15, C16, C43):
// a bounded history of real JoinGroup / SyncGroup / Heartbeat / LeaveGroup / OffsetCommit
// calls against the real GroupCoordinator over the real InMemoryStore, with the operation,
// the member, the subscription and the request generation chosen by the solver-driven
// explorer. Every reply is checked against the property selected by w.prop.

const vsymGroup = "g"

var vsymTopics = []string{"t0", "t1"}

type vsymWorld struct {
	prop         string
	c            *GroupCoordinator
	store        *metadata.InMemoryStore
	nparts       []int
	ids          []string            // member ids ever issued, in issue order
	subs         map[string][]string // subscription last sent by each member
	commits      int                 // CommitConsumerOffset calls observed by the monitor
	lastGen      int32
	resubscribed map[string]bool
	sessionMs    int32            // session timeout sent with joins (default 10 s = the rebalance timeout)
	joinedAt     map[string]int32 // member id -> generation that was current right after its last JoinGroup call
	takeovers    bool             // step() may also replace the coordinator by a fresh one over the same store
	fixedSubs    bool             // every join subscribes to {t0} (properties that do not depend on subscriptions)
	timed        bool             // step() may also let time pass and run the coordinator's cleanup tick
}

// Virtual time: under the executor time.Now is pinned (natively the microseconds that pass are
// negligible against the millisecond band kept clear below); time advances only through
// elapse(d), which moves every instant the coordinator has stored d nanoseconds into the past.
func vsymPinClock() {
	if vsym_Symbolic() {
		vsym_Override("time.Now", func() time.Time { return time.Unix(1700000000, 0) })
	}
}

func (w *vsymWorld) elapse(d int64) {
	st := w.state()
	if st == nil {
		return
	}
	now := time.Now()
	band := func(left time.Duration) {
		// keep every deadline at least 1 ms away from "now" so that the native clock drift
		// cannot flip a comparison the solver decided
		vsym_Assume(vsym_Or(left < -time.Millisecond, left > time.Millisecond))
	}
	for _, m := range st.members {
		m.lastHeartbeat = m.lastHeartbeat.Add(-time.Duration(d))
		band(m.sessionTimeout - now.Sub(m.lastHeartbeat))
	}
	if !st.rebalanceDeadline.IsZero() {
		st.rebalanceDeadline = st.rebalanceDeadline.Add(-time.Duration(d))
		band(st.rebalanceDeadline.Sub(now))
	}
}

type vsymMonitorStore struct {
	metadata.Store
	w *vsymWorld
}

func (s *vsymMonitorStore) CommitConsumerOffset(ctx context.Context, group, topic string, partition int32, offset int64, meta string) error {
	s.w.commits++
	return s.Store.CommitConsumerOffset(ctx, group, topic, partition, offset, meta)
}

func vsymNewWorld(prop string, n0, n1 int) *vsymWorld {
	vsymPinClock()
	w := &vsymWorld{prop: prop, nparts: []int{n0, n1}, subs: map[string][]string{}}
	mk := func(name string, n int) protocol.MetadataTopic {
		t := protocol.MetadataTopic{Topic: kmsg.StringPtr(name)}
		for p := 0; p < n; p++ {
			t.Partitions = append(t.Partitions, protocol.MetadataPartition{Partition: int32(p), Leader: 1})
		}
		return t
	}
	w.store = metadata.NewInMemoryStore(metadata.ClusterMetadata{
		Brokers: []protocol.MetadataBroker{{NodeID: 1, Host: "b", Port: 9092}},
		Topics:  []protocol.MetadataTopic{mk("t0", n0), mk("t1", n1)},
	})
	w.c = &GroupCoordinator{
		store:  &vsymMonitorStore{Store: w.store, w: w},
		broker: protocol.MetadataBroker{NodeID: 1, Host: "b", Port: 9092},
		config: defaultCoordinatorConfig,
		stopCh: make(chan struct{}),
		groups: make(map[string]*groupState),
	}
	return w
}

// vsymTakeover replaces the world's coordinator by a new instance over the same metadata store
// and has it load the group (what a broker does when it becomes the group's coordinator).
func vsymTakeover(w *vsymWorld) {
	nc := &GroupCoordinator{
		store:  w.c.store,
		broker: w.c.broker,
		config: defaultCoordinatorConfig,
		stopCh: make(chan struct{}),
		groups: make(map[string]*groupState),
	}
	_, err := nc.loadGroupIfMissing(context.Background(), vsymGroup)
	vsym_Assert(err == nil, w.prop+"/takeover-loads-the-group")
	w.c = nc
	vsym_Reach("takeover")
}

// vsymSubscription encodes a consumer-protocol subscription (reference encoder).
func vsymSubscription(topics []string) []byte {
	b := []byte{0, 0}
	b = binary.BigEndian.AppendUint32(b, uint32(len(topics)))
	for _, t := range topics {
		b = binary.BigEndian.AppendUint16(b, uint16(len(t)))
		b = append(b, t...)
	}
	return binary.BigEndian.AppendUint32(b, 0)
}

// vsymDecodeAssignment decodes a consumer-protocol assignment (reference decoder).
func vsymDecodeAssignment(b []byte) (map[string][]int32, bool) {
	out := map[string][]int32{}
	if len(b) < 6 {
		return out, false
	}
	pos := 2
	n := int(binary.BigEndian.Uint32(b[pos:]))
	pos += 4
	for i := 0; i < n; i++ {
		if pos+2 > len(b) {
			return out, false
		}
		l := int(binary.BigEndian.Uint16(b[pos:]))
		pos += 2
		if pos+l+4 > len(b) {
			return out, false
		}
		name := string(b[pos : pos+l])
		pos += l
		k := int(binary.BigEndian.Uint32(b[pos:]))
		pos += 4
		for j := 0; j < k; j++ {
			if pos+4 > len(b) {
				return out, false
			}
			out[name] = append(out[name], int32(binary.BigEndian.Uint32(b[pos:])))
			pos += 4
		}
	}
	return out, true
}

func (w *vsymWorld) chooseSubs() []string {
	if w.fixedSubs {
		return []string{"t0"}
	}
	return vsymSubsFromMask(1 + vsym_Choose("subs", 4))
}

func vsymSubsFromMask(mask int) []string {
	if mask == 4 {
		return []string{"t1", "t0"} // both topics, not in lexical order
	}
	var s []string
	if mask&1 != 0 {
		s = append(s, "t0")
	}
	if mask&2 != 0 {
		s = append(s, "t1")
	}
	return s
}

func (w *vsymWorld) state() *groupState { return w.c.groups[vsymGroup] }

func (w *vsymWorld) join(memberID string, subs []string) *kmsg.JoinGroupResponse {
	req := kmsg.NewPtrJoinGroupRequest()
	req.Group = vsymGroup
	req.MemberID = memberID
	req.ProtocolType = "consumer"
	req.SessionTimeoutMillis = 10000
	if w.sessionMs != 0 {
		req.SessionTimeoutMillis = w.sessionMs
	}
	req.RebalanceTimeoutMillis = 10000
	p := kmsg.NewJoinGroupRequestProtocol()
	p.Name = "range"
	p.Metadata = vsymSubscription(subs)
	req.Protocols = append(req.Protocols, p)
	resp, err := w.c.JoinGroup(context.Background(), req)
	vsym_Assert(err == nil && resp != nil, w.prop+"/join-no-error")
	if memberID == "" || !w.known(memberID) {
		w.ids = append(w.ids, resp.MemberID)
	}
	w.subs[resp.MemberID] = subs
	// the harness's own record of who has joined which generation (not the coordinator's field)
	if w.joinedAt == nil {
		w.joinedAt = map[string]int32{}
	}
	if st := w.state(); st != nil {
		w.joinedAt[resp.MemberID] = st.generationID
	}
	return resp
}

func (w *vsymWorld) known(id string) bool {
	for _, x := range w.ids {
		if x == id {
			return true
		}
	}
	return false
}

func (w *vsymWorld) sync(memberID string, gen int32) *kmsg.SyncGroupResponse {
	req := kmsg.NewPtrSyncGroupRequest()
	req.Group = vsymGroup
	req.MemberID = memberID
	req.Generation = gen
	resp, err := w.c.SyncGroup(context.Background(), req)
	vsym_Assert(err == nil && resp != nil, w.prop+"/sync-no-error")
	return resp
}

func (w *vsymWorld) heartbeat(memberID string, gen int32) *kmsg.HeartbeatResponse {
	req := kmsg.NewPtrHeartbeatRequest()
	req.Group = vsymGroup
	req.MemberID = memberID
	req.Generation = gen
	return w.c.Heartbeat(context.Background(), req)
}

func (w *vsymWorld) leave(memberID string) *kmsg.LeaveGroupResponse {
	req := kmsg.NewPtrLeaveGroupRequest()
	req.Group = vsymGroup
	req.MemberID = memberID
	resp := w.c.LeaveGroup(context.Background(), req)
	return resp
}

func (w *vsymWorld) commit(memberID string, gen int32, topic string, part int32, off int64) *kmsg.OffsetCommitResponse {
	req := kmsg.NewPtrOffsetCommitRequest()
	req.Group = vsymGroup
	req.MemberID = memberID
	req.Generation = gen
	t := kmsg.NewOffsetCommitRequestTopic()
	t.Topic = topic
	p := kmsg.NewOffsetCommitRequestTopicPartition()
	p.Partition = part
	p.Offset = off
	t.Partitions = append(t.Partitions, p)
	req.Topics = append(req.Topics, t)
	resp, err := w.c.OffsetCommit(context.Background(), req)
	vsym_Assert(err == nil && resp != nil, w.prop+"/commit-no-error")
	return resp
}

func (w *vsymWorld) currentMembers() []string {
	st := w.state()
	if st == nil {
		return nil
	}
	ids := make([]string, 0, len(st.members))
	for id := range st.members {
		ids = append(ids, id)
	}
	sort.Strings(ids)
	return ids
}

// pick chooses a member id for a request: one of the ids ever issued (current or removed),
// an id the coordinator never issued, or the empty id.
func (w *vsymWorld) pick(tag string) string {
	k := vsym_Choose(tag, len(w.ids)+2)
	if k == len(w.ids) {
		return "never-issued"
	}
	if k == len(w.ids)+1 {
		return "" // the "no member" id of standalone clients
	}
	return w.ids[k]
}

// step performs one solver-chosen operation of a well-behaved or misbehaving client.
// It returns false when the chosen operation is not applicable (path pruned by the caller).
func (w *vsymWorld) step() {
	nops := 5
	if w.timed {
		nops = 7
	}
	if w.takeovers {
		nops = 8
	}
	switch vsym_Choose("op", nops) {
	case 7:
		// the coordinator is replaced by a new one that loads the group from the metadata store
		if w.state() == nil {
			vsym_Assume(false)
		}
		vsymTakeover(w)
	case 5:
		if w.state() == nil {
			vsym_Assume(false)
		}
		d := vsym_Int64("dt")
		vsym_Assume(d >= 0 && d <= int64(time.Hour))
		w.elapse(d)
	case 6:
		if w.state() == nil {
			vsym_Assume(false)
		}
		w.c.cleanupGroups()
	case 0:
		if len(w.ids) >= 3 {
			vsym_Assume(false)
		}
		w.checkJoin(w.join("", w.chooseSubs()))
	case 1:
		if len(w.ids) == 0 {
			vsym_Assume(false)
		}
		w.checkJoin(w.join(w.ids[vsym_Choose("who", len(w.ids))], w.chooseSubs()))
	case 2:
		if len(w.ids) == 0 || w.state() == nil {
			vsym_Assume(false)
		}
		w.sync(w.ids[vsym_Choose("who", len(w.ids))], w.state().generationID)
	case 3:
		if len(w.ids) == 0 {
			vsym_Assume(false)
		}
		id := w.ids[vsym_Choose("who", len(w.ids))]
		others := 0
		if st := w.state(); st != nil {
			for m := range st.members {
				if m != id {
					others++
				}
			}
		}
		gen := w.lastGen
		w.leave(id)
		if others > 0 {
			// the group exists as long as it has members: a leave must not make it (and its
			// generation counter) disappear under the remaining ones
			vsym_Assert(w.state() != nil && w.state().generationID >= gen, w.prop+"/group-with-members-survives-a-leave")
		}
	case 4:
		if len(w.ids) == 0 || w.state() == nil {
			vsym_Assume(false)
		}
		w.heartbeat(w.ids[vsym_Choose("who", len(w.ids))], w.state().generationID)
	}
	if st := w.state(); st != nil {
		if w.prop == "C13" {
			vsym_Assert(st.generationID >= w.lastGen, "C13/generation-never-decreases")
		}
		w.lastGen = st.generationID
	} else {
		w.lastGen = 0
	}
}

// checkJoin: C14 — a JoinGroup reply says NONE only when every member has re-joined the
// generation it announces; the leader exists; only the leader receives the member list.
func (w *vsymWorld) checkJoin(resp *kmsg.JoinGroupResponse) {
	if w.prop != "C14" {
		return
	}
	st := w.state()
	vsym_Assert(st != nil, "C14/group-exists-after-join")
	if resp.ErrorCode == 0 {
		vsym_Reach("join-none")
		for _, id := range w.currentMembers() {
			vsym_Assert(st.members[id].joinGeneration == resp.Generation, "C14/none-only-when-all-rejoined")
			vsym_Assert(w.joinedAt[id] == resp.Generation, "C14/none-only-when-every-member-has-joined-this-generation")
		}
		vsym_Assert(resp.Generation == st.generationID, "C14/reply-generation-current")
	}
	_, leaderIsMember := st.members[resp.LeaderID]
	vsym_Assert(leaderIsMember, "C14/leader-is-a-member")
	if len(resp.Members) > 0 {
		vsym_Assert(resp.MemberID == resp.LeaderID && resp.ErrorCode == 0, "C14/member-list-only-to-leader-on-success")
		vsym_Assert(len(resp.Members) == len(st.members), "C14/member-list-complete")
	}
	if resp.ErrorCode == 0 && resp.MemberID == resp.LeaderID {
		vsym_Assert(len(resp.Members) == len(st.members), "C14/leader-gets-every-member")
	}
}

func kmsgHeartbeat(id string, gen int32) *kmsg.HeartbeatRequest {
	req := kmsg.NewPtrHeartbeatRequest()
	req.Group = vsymGroup
	req.MemberID = id
	req.Generation = gen
	return req
}
