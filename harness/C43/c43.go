package broker

import "time"

// C43 — group members expire exactly when their session lapses.
//
// Virtual time: the wall clock stands still (in the executor time.Now is pinned; natively the
// microseconds that pass are negligible) and time advances only through age(d), which moves
// every instant the coordinator has stored d nanoseconds into the past. The harness keeps,
// per member, the silence since the coordinator last recognised a request from it.

const vsymSession = 10 * time.Second

type vsymClock struct {
	silence map[string]int64
}

func (w *vsymWorld) age(cl *vsymClock, d int64) {
	for id := range cl.silence {
		cl.silence[id] += d
	}
	if st := w.state(); st != nil {
		for _, m := range st.members {
			m.lastHeartbeat = m.lastHeartbeat.Add(-time.Duration(d))
		}
		if !st.rebalanceDeadline.IsZero() {
			st.rebalanceDeadline = st.rebalanceDeadline.Add(-time.Duration(d))
		}
	}
}

func VsymC43_Expiry() {
	k := vsym_Param("k")
	w := vsymNewWorld("C43", 1, 1)
	cl := &vsymClock{silence: map[string]int64{}}
	for step := 0; step < k; step++ {
		switch vsym_Choose("op", 5) {
		case 0:
			if len(w.ids) >= 2 {
				vsym_Assume(false)
			}
			r := w.join("", []string{"t0"})
			cl.silence[r.MemberID] = 0
		case 1:
			if len(w.ids) == 0 {
				vsym_Assume(false)
			}
			id := w.ids[vsym_Choose("who", len(w.ids))]
			r := w.join(id, []string{"t0"})
			cl.silence[r.MemberID] = 0
		case 2:
			if len(w.ids) == 0 || w.state() == nil {
				vsym_Assume(false)
			}
			id := w.ids[vsym_Choose("who", len(w.ids))]
			_, current := w.state().members[id]
			resp := w.heartbeat(id, w.state().generationID)
			if current {
				// a heartbeat from a current member in the current generation is a sign of life,
				// whether it is answered NONE or REBALANCE_IN_PROGRESS
				vsym_Assert(resp.ErrorCode == 0 || resp.ErrorCode == 27, "C43/heartbeat-of-current-member-recognised")
				cl.silence[id] = 0
			}
		case 3:
			if len(w.ids) == 0 || w.state() == nil {
				vsym_Assume(false)
			}
			id := w.ids[vsym_Choose("who", len(w.ids))]
			w.sync(id, w.state().generationID)
		case 4:
			d := vsym_Int64("dt")
			vsym_Assume(d >= 0 && d <= int64(time.Hour))
			w.age(cl, d)
			st := w.state()
			if st == nil {
				continue
			}
			type pre struct {
				lagger bool
			}
			before := map[string]pre{}
			now := time.Now()
			for id, m := range st.members {
				lag := !st.rebalanceDeadline.IsZero() && !now.Before(st.rebalanceDeadline) && m.joinGeneration != st.generationID
				before[id] = pre{lagger: lag}
			}
			gen := st.generationID
			w.c.cleanupGroups()
			vsym_Reach("tick")
			after := w.state()
			anyRemoved := false
			for id, p := range before {
				removed := after == nil || after.members[id] == nil
				expired := cl.silence[id] > int64(vsymSession)
				if removed {
					anyRemoved = true
					vsym_Reach("removed")
					vsym_Assert(vsym_Or(expired, p.lagger), "C43/removed-only-after-session-or-rebalance-timeout")
					delete(cl.silence, id)
				} else {
					vsym_Assert(!expired, "C43/silent-member-removed-at-tick")
					vsym_Assert(!p.lagger, "C43/member-that-missed-the-rebalance-deadline-removed-at-tick")
				}
			}
			if anyRemoved && after != nil {
				vsym_Assert(after.generationID > gen && after.state == groupStatePreparingRebalance, "C43/removal-triggers-rebalance")
			}
		}
	}
}

func VsymC43_Twin() {
	w := vsymNewWorld("C43", 1, 1)
	cl := &vsymClock{silence: map[string]int64{}}
	r := w.join("", []string{"t0"})
	cl.silence[r.MemberID] = 0
	d := vsym_Int64("dt")
	vsym_Assume(d >= 0 && d <= int64(time.Hour))
	w.age(cl, d)
	w.c.cleanupGroups()
	vsym_Assert(w.state() != nil, "C43/twin")
}
