package broker

// C13 — stale or unknown group members are fenced.
//
// After a bounded history, a request carrying an arbitrary member id (current, removed or
// never issued) and an arbitrary generation is accepted only if the member is current and
// the generation is the current one; a fenced OffsetCommit never reaches the offset store.

func VsymC13_Fencing() {
	k := vsym_Param("k")
	w := vsymNewWorld("C13", 2, 1)
	for i := 0; i < k; i++ {
		w.step()
	}
	who := w.pick("fence-who")
	gen := vsym_Int32("fence-gen")
	st := w.state()
	current := false
	curGen := int32(-1)
	if st != nil {
		_, current = st.members[who]
		curGen = st.generationID
	}
	legit := vsym_And(current, gen == curGen)
	if who == "" && (st == nil || len(st.members) == 0) {
		// a member-less commit against a group that has no members is not a "stale member"; outside C13
		vsym_Assume(false)
	}
	switch vsym_Choose("fence-op", 3) {
	case 0:
		before := w.commits
		resp := w.commit(who, gen, "t0", 0, 42)
		code := resp.Topics[0].Partitions[0].ErrorCode
		vsym_Reach("commit")
		vsym_Assert(vsym_Implies(!legit, code != 0), "C13/stale-commit-rejected")
		vsym_Assert(vsym_Implies(!legit, w.commits == before), "C13/stale-commit-not-stored")
		vsym_Assert(vsym_Implies(legit, code == 0 && w.commits == before+1), "C13/current-commit-accepted")
	case 1:
		resp := w.heartbeat(who, gen)
		vsym_Reach("heartbeat")
		vsym_Assert(vsym_Implies(!legit, resp.ErrorCode != 0), "C13/stale-heartbeat-rejected")
	case 2:
		resp := w.sync(who, gen)
		vsym_Reach("sync")
		vsym_Assert(vsym_Implies(!legit, resp.ErrorCode != 0), "C13/stale-sync-rejected")
	}
}

func VsymC13_Twin() {
	w := vsymNewWorld("C13", 1, 1)
	r := w.join("", []string{"t0"})
	resp := w.commit(r.MemberID, vsym_Int32("g"), "t0", 0, 1)
	vsym_Assert(resp.Topics[0].Partitions[0].ErrorCode != 0, "C13/twin")
}
