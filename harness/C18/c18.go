package metadata

import (
	"context"

	clientv3 "go.etcd.io/etcd/client/v3"
)

// C18 — a partition or group lease has at most one live owner.
//
// Two brokers, each with its own real LeaseManager and etcd session (the real
// concurrency.NewSession) over the etcd model, compete for one resource. Broker A runs
// acquire, release, acquire; a second thread lets A's session lease end (at any moment) and then
// has broker B acquire (A is told first: its keep-alive stream closes and
// its monitor runs; then etcd drops the lease's keys). Every etcd call is a scheduling point.
// Checked at every scheduling point and at quiescence: the two managers never both report
// ownership, and no Delete removes a lease key that holds another broker's id.

type vsymC18World struct {
	e    *vsymEtcd
	a, b *LeaseManager
}

func (w *vsymC18World) check() {
	vsym_Assert(!(w.a.Owns("orders/0") && w.b.Owns("orders/0")), "C18/at-most-one-broker-believes-it-owns-the-lease")
}

func VsymC18_SingleOwner() {
	e := newVsymEtcd()
	w := &vsymC18World{e: e}
	ca, cb := e.client("A"), e.client("B")
	w.a = NewLeaseManager(ca, LeaseManagerConfig{BrokerID: "A", Prefix: "/kafscale/partition-leases", ResourceKind: "partition"})
	w.b = NewLeaseManager(cb, LeaseManagerConfig{BrokerID: "B", Prefix: "/kafscale/partition-leases", ResourceKind: "partition"})
	key := "/kafscale/partition-leases/orders/0"
	stolen := false
	e.onOpWho = func(who, op, k string) {
		// scheduling points: the operations that read-modify-write the lease key (labelled with
		// the calling broker so that a native replay gates the right thread)
		if op == "txn" || op == "put" || op == "delete" {
			vsym_Event(who + ":" + op + ":" + k)
		}
		w.check()
	}
	// a delete that removes somebody else's lease key
	origDel := e.del
	_ = origDel
	vsym_ExploreEvents()
	vsym_DaemonsFirst() // session keep-alive loops and session monitors run as soon as they are woken
	vsym_PreemptionBound(vsym_Param("preempt"))
	ctx := context.Background()
	vsym_Go(func() {
		_ = w.a.Acquire(ctx, "orders/0")
		w.check()
		// Release: note who owns the key when the delete lands
		w.a.Release("orders/0")
		w.check()
		_ = w.a.Acquire(ctx, "orders/0")
		w.check()
	})
	vsym_Go(func() {
		vsym_Event("expire-A")
		fa := ca.Lease.(*vsymEtcdFacade)
		// the broker learns of its session's death no later than etcd expires the lease
		if l := e.leases[fa.lastLease]; fa.lastLease != 0 && l != nil && l.alive {
			for _, k := range l.ka {
				k.close()
			}
			l.ka = nil
			dying := fa.lastLease
			vsym_Await(func() bool {
				// (no lock: the predicate is evaluated atomically by the scheduler)
				return w.a.session == nil || w.a.session.Lease() != dying
			})
			vsym_Event("etcd-drops-A's-keys") // (a named point, so that a native replay can place it)
			e.expire(dying)
		}
		w.check()
		_ = w.b.Acquire(ctx, "orders/0")
		w.check()
	})
	vsym_Join()
	vsym_Settle()
	vsym_Reach("quiescent")
	w.check()
	// who does etcd say owns it, and do the managers agree with etcd?
	owner := ""
	if en, ok := e.data[key]; ok {
		owner = string(en.value)
	}
	if w.a.Owns("orders/0") {
		vsym_Assert(owner == "A", "C18/manager-ownership-backed-by-its-etcd-key")
	}
	if w.b.Owns("orders/0") {
		vsym_Assert(owner == "B", "C18/manager-ownership-backed-by-its-etcd-key")
	}
	_ = stolen
	_ = clientv3.NoLease
}

func VsymC18_Twin() {
	e := newVsymEtcd()
	a := NewLeaseManager(e.client("A"), LeaseManagerConfig{BrokerID: "A", Prefix: "/p"})
	err := a.Acquire(context.Background(), "r")
	vsym_Assert(err != nil || !a.Owns("r") || vsym_Bool("z"), "C18/twin")
}


// VsymC18_TwoResources: broker A acquires two resources from two threads while its session ends
// and broker B takes over the first one. The reply of a lease transaction is a scheduling point
// too (the session can end between etcd committing and the broker seeing the answer).
func VsymC18_TwoResources() {
	e := newVsymEtcd()
	ca, cb := e.client("A"), e.client("B")
	a := NewLeaseManager(ca, LeaseManagerConfig{BrokerID: "A", Prefix: "/kafscale/partition-leases", ResourceKind: "partition"})
	b := NewLeaseManager(cb, LeaseManagerConfig{BrokerID: "B", Prefix: "/kafscale/partition-leases", ResourceKind: "partition"})
	check := func() {
		vsym_Assert(!(a.Owns("orders/0") && b.Owns("orders/0")), "C18/at-most-one-broker-believes-it-owns-the-lease")
	}
	e.onOpWho = func(who, op, k string) {
		if op == "txn" || op == "put" || op == "delete" {
			vsym_Event(who + ":" + op + ":" + k)
		}
		check()
	}
	e.onOpDone = func(who, op, k string) {
		if who == "A" {
			vsym_Event(who + ":" + op + "-reply:" + k)
		}
	}
	vsym_ExploreEvents()
	vsym_DaemonsFirst()
	vsym_PreemptionBound(vsym_Param("preempt"))
	ctx := context.Background()
	vsym_Go(func() {
		_ = a.Acquire(ctx, "orders/0")
		check()
	})
	vsym_Go(func() {
		_ = a.Acquire(ctx, "orders/1")
		check()
	})
	vsym_Go(func() {
		vsym_Event("expire-A")
		fa := ca.Lease.(*vsymEtcdFacade)
		if l := e.leases[fa.lastLease]; fa.lastLease != 0 && l != nil && l.alive {
			for _, k := range l.ka {
				k.close()
			}
			l.ka = nil
			dying := fa.lastLease
			vsym_Await(func() bool { return a.session == nil || a.session.Lease() != dying })
			vsym_Event("etcd-drops-A's-keys")
			e.expire(dying)
		}
		check()
		_ = b.Acquire(ctx, "orders/0")
		check()
	})
	vsym_Join()
	vsym_Settle()
	vsym_Reach("quiescent2")
	check()
	owner := ""
	if en, ok := e.data["/kafscale/partition-leases/orders/0"]; ok {
		owner = string(en.value)
	}
	if a.Owns("orders/0") {
		vsym_Assert(owner == "A", "C18/manager-ownership-backed-by-its-etcd-key")
	}
	if b.Owns("orders/0") {
		vsym_Assert(owner == "B", "C18/manager-ownership-backed-by-its-etcd-key")
	}
}
