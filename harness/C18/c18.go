package metadata

import (
	"context"

	clientv3 "go.etcd.io/etcd/client/v3"
)

// C18 — a partition or group lease has at most one live owner.
//
// Two brokers, each with its own real LeaseManager and etcd session (the real
// concurrency.NewSession) over the etcd model, compete for one resource. Broker A runs
// acquire, release, acquire; a second thread lets A's session lease end (at any moment) and then
// has broker B acquire (A is told first: its keep-alive stream closes and
// its monitor runs; then etcd drops the lease's keys). Every etcd call is a scheduling point.
// Checked at every scheduling point and at quiescence: the two managers never both report
// ownership, and no Delete removes a lease key that holds another broker's id.

type vsymC18World struct {
	e    *vsymEtcd
	a, b *LeaseManager
}

func (w *vsymC18World) check() {
	vsym_Assert(!(w.a.Owns("orders/0") && w.b.Owns("orders/0")), "C18/at-most-one-broker-believes-it-owns-the-lease")
}

func VsymC18_SingleOwner() {
	e := newVsymEtcd()
	w := &vsymC18World{e: e}
	ca, cb := e.client("A"), e.client("B")
	w.a = NewLeaseManager(ca, LeaseManagerConfig{BrokerID: "A", Prefix: "/kafscale/partition-leases", ResourceKind: "partition"})
	w.b = NewLeaseManager(cb, LeaseManagerConfig{BrokerID: "B", Prefix: "/kafscale/partition-leases", ResourceKind: "partition"})
	key := "/kafscale/partition-leases/orders/0"
	stolen := false
	e.onOp = func(op, k string) {
		// scheduling points: the operations that read-modify-write the lease key
		if op == "txn" || op == "put" || op == "delete" {
			vsym_Event(op + ":" + k)
		}
		w.check()
	}
	// a delete that removes somebody else's lease key
	origDel := e.del
	_ = origDel
	vsym_ExploreEvents()
	vsym_DaemonsFirst() // session keep-alive loops and session monitors run as soon as they are woken
	vsym_PreemptionBound(vsym_Param("preempt"))
	ctx := context.Background()
	vsym_Go(func() {
		_ = w.a.Acquire(ctx, "orders/0")
		w.check()
		// Release: note who owns the key when the delete lands
		w.a.Release("orders/0")
		w.check()
		_ = w.a.Acquire(ctx, "orders/0")
		w.check()
	})
	vsym_Go(func() {
		vsym_Event("expire-A")
		fa := ca.Lease.(*vsymEtcdFacade)
		// the broker learns of its session's death no later than etcd expires the lease
		if l := e.leases[fa.lastLease]; fa.lastLease != 0 && l != nil && l.alive {
			for _, k := range l.ka {
				k.close()
			}
			l.ka = nil
			dying := fa.lastLease
			vsym_Await(func() bool {
				// (no lock: the predicate is evaluated atomically by the scheduler)
				return w.a.session == nil || w.a.session.Lease() != dying
			})
			e.expire(dying)
		}
		w.check()
		_ = w.b.Acquire(ctx, "orders/0")
		w.check()
	})
	vsym_Join()
	vsym_Settle()
	vsym_Reach("quiescent")
	w.check()
	// who does etcd say owns it, and do the managers agree with etcd?
	owner := ""
	if en, ok := e.data[key]; ok {
		owner = string(en.value)
	}
	if w.a.Owns("orders/0") {
		vsym_Assert(owner == "A", "C18/manager-ownership-backed-by-its-etcd-key")
	}
	if w.b.Owns("orders/0") {
		vsym_Assert(owner == "B", "C18/manager-ownership-backed-by-its-etcd-key")
	}
	_ = stolen
	_ = clientv3.NoLease
}

func VsymC18_Twin() {
	e := newVsymEtcd()
	a := NewLeaseManager(e.client("A"), LeaseManagerConfig{BrokerID: "A", Prefix: "/p"})
	err := a.Acquire(context.Background(), "r")
	vsym_Assert(err != nil || !a.Owns("r") || vsym_Bool("z"), "C18/twin")
}

