package metadata

import (
	"context"
	"errors"
	"time"

	"github.com/twmb/franz-go/pkg/kmsg"

	metadatapb "github.com/KafScale/platform/pkg/gen/metadata"
	"github.com/KafScale/platform/pkg/protocol"
)

// C17 — the in-memory and the etcd-backed metadata store behave the same.
//
// The same sequence of k store operations (chosen by the explorer from 20 operations over topics
// t/u, partitions 0/1/5, group g; offsets and metadata symbolic) runs against the real
// InMemoryStore and against the real EtcdStore over the etcd model; after each operation the
// observable results (error class, numbers, strings, topic/partition counts) must agree.

func vsymSnapshot() ClusterMetadata {
	mk := func(name string, n int) protocol.MetadataTopic {
		t := protocol.MetadataTopic{Topic: kmsg.StringPtr(name), TopicID: TopicIDForName(name)}
		for p := 0; p < n; p++ {
			t.Partitions = append(t.Partitions, protocol.MetadataPartition{Partition: int32(p), Leader: 1, Replicas: []int32{1}, ISR: []int32{1}})
		}
		return t
	}
	return ClusterMetadata{Brokers: []protocol.MetadataBroker{{NodeID: 1, Host: "b", Port: 9092}}, ControllerID: 1, Topics: []protocol.MetadataTopic{mk("t", 2), mk("tt", 1)}}
}

type vsymStoreObs struct {
	errClass int   // 0 nil, 1 ErrUnknownTopic, 2 ErrInvalidTopic, 3 ErrTopicExists, 9 other
	num      int64 // numeric result, if any
	str      string
	n        int // a count, if any
}

func vsymErrClass(err error) int {
	switch {
	case err == nil:
		return 0
	case errors.Is(err, ErrUnknownTopic):
		return 1
	case errors.Is(err, ErrInvalidTopic):
		return 2
	case errors.Is(err, ErrTopicExists):
		return 3
	}
	return 9
}

func vsymApply(s Store, op int, off int64, meta string) vsymStoreObs {
	ctx := context.Background()
	var o vsymStoreObs
	switch op {
	case 0:
		o.errClass = vsymErrClass(s.UpdateOffsets(ctx, "t", 0, off))
	case 1:
		o.errClass = vsymErrClass(s.UpdateOffsets(ctx, "t", 1, off))
	case 2:
		n, err := s.NextOffset(ctx, "t", 0)
		o.num, o.errClass = n, vsymErrClass(err)
	case 3:
		n, err := s.NextOffset(ctx, "t", 1)
		o.num, o.errClass = n, vsymErrClass(err)
	case 4:
		n, err := s.NextOffset(ctx, "u", 0)
		o.num, o.errClass = n, vsymErrClass(err)
	case 5:
		n, err := s.NextOffset(ctx, "t", 5)
		o.num, o.errClass = n, vsymErrClass(err)
	case 6:
		o.errClass = vsymErrClass(s.CommitConsumerOffset(ctx, "g", "t", 0, off, meta))
	case 7:
		n, m, err := s.FetchConsumerOffset(ctx, "g", "t", 0)
		o.num, o.str, o.errClass = n, m, vsymErrClass(err)
	case 8:
		n, m, err := s.FetchConsumerOffset(ctx, "g", "u", 0)
		o.num, o.str, o.errClass = n, m, vsymErrClass(err)
	case 9:
		tp, err := s.CreateTopic(ctx, TopicSpec{Name: "u", NumPartitions: 1, ReplicationFactor: 1})
		o.errClass = vsymErrClass(err)
		if tp != nil {
			o.n = len(tp.Partitions)
		}
	case 10:
		_, err := s.CreateTopic(ctx, TopicSpec{Name: "t", NumPartitions: 1, ReplicationFactor: 1})
		o.errClass = vsymErrClass(err)
	case 11:
		o.errClass = vsymErrClass(s.DeleteTopic(ctx, "u"))
	case 12:
		o.errClass = vsymErrClass(s.DeleteTopic(ctx, "t"))
	case 13:
		o.errClass = vsymErrClass(s.CreatePartitions(ctx, "t", 3))
	case 14:
		o.errClass = vsymErrClass(s.CreatePartitions(ctx, "u", 2))
	case 15:
		md, err := s.Metadata(ctx, nil)
		o.errClass = vsymErrClass(err)
		if md != nil {
			o.n = len(md.Topics) * 100
			for _, tp := range md.Topics {
				o.n += len(tp.Partitions)
			}
		}
	case 16:
		o.errClass = vsymErrClass(s.PutConsumerGroup(ctx, &metadatapb.ConsumerGroup{GroupId: "g", State: "stable", GenerationId: int32(off), Leader: meta}))
	case 17:
		g, err := s.FetchConsumerGroup(ctx, "g")
		o.errClass = vsymErrClass(err)
		if g != nil {
			o.num, o.str, o.n = int64(g.GenerationId), g.Leader, 1
		}
	case 18:
		o.errClass = vsymErrClass(s.DeleteConsumerGroup(ctx, "g"))
	case 19:
		gs, err := s.ListConsumerGroups(ctx)
		o.errClass, o.n = vsymErrClass(err), len(gs)
	case 20:
		cos, err := s.ListConsumerOffsets(ctx)
		o.errClass, o.n = vsymErrClass(err), len(cos)
		for _, c := range cos {
			o.num += c.Offset
			if c.Group != "g" && c.Group != "a:b" {
				o.n += 1000
			}
			if c.Topic != "t" {
				o.n += 10000
			}
		}
	case 21:
		o.errClass = vsymErrClass(s.CommitConsumerOffset(ctx, "a:b", "t", 1, off, meta))
	case 22:
		n, m, err := s.FetchConsumerOffset(ctx, "a:b", "t", 1)
		o.num, o.str, o.errClass = n, m, vsymErrClass(err)
	case 25:
		o.errClass = vsymErrClass(s.UpdateOffsets(ctx, "tt", 0, off))
	case 26:
		n, err := s.NextOffset(ctx, "tt", 0)
		o.num, o.errClass = n, vsymErrClass(err)
	case 24:
		o.errClass = vsymErrClass(s.UpdateTopicConfig(ctx, &metadatapb.TopicConfig{Name: "t", RetentionMs: off}))
	case 23:
		cfg, err := s.FetchTopicConfig(ctx, "t")
		o.errClass = vsymErrClass(err)
		if cfg != nil {
			o.n = int(cfg.Partitions)
			o.num = int64(cfg.ReplicationFactor)*(1<<41) + cfg.RetentionMs
		}
	}
	return o
}

func vsymC17PinClock() {
	if vsym_Symbolic() {
		vsym_Override("time.Now", func() time.Time { return time.Unix(1700000000, 0) })
	}
}

func VsymC17_Equivalent() {
	vsymC17PinClock()
	k := vsym_Param("k")
	mem := NewInMemoryStore(vsymSnapshot())
	e := newVsymEtcd()
	etcd := &EtcdStore{client: e.client("store"), metadata: NewInMemoryStore(vsymSnapshot()), available: 1}
	metas := []string{"", "m1"}
	if vsym_Param("prehistory") == 1 {
		// a fixed earlier history, applied to both stores: an offset on topic tt (whose name has
		// the name of topic t as a prefix) and a consumer offset with metadata
		for _, st := range []Store{mem, etcd} {
			vsym_Assert(st.UpdateOffsets(context.Background(), "tt", 0, 7) == nil, "C17/prehistory")
			vsym_Assert(st.CommitConsumerOffset(context.Background(), "g", "t", 0, 5, "m0") == nil, "C17/prehistory")
		}
	}
	for i := 0; i < k; i++ {
		op := vsym_Choose("op", vsym_Param("menu"))
		off := vsym_Int64("off")
		vsym_Assume(vsym_And(off >= 0, off < 1<<40))
		meta := metas[vsym_Choose("meta", 2)]
		a := vsymApply(mem, op, off, meta)
		b := vsymApply(etcd, op, off, meta)
		vsym_Reach("applied")
		vsym_Assert(a.errClass == b.errClass, "C17/same-outcome-class")
		vsym_Assert(a.num == b.num, "C17/same-numeric-result")
		vsym_Assert(a.str == b.str, "C17/same-string-result")
		vsym_Assert(a.n == b.n, "C17/same-counts")
	}
}

func VsymC17_Twin() {
	vsymC17PinClock()
	e := newVsymEtcd()
	etcd := &EtcdStore{client: e.client("store"), metadata: NewInMemoryStore(vsymSnapshot()), available: 1}
	_ = etcd.UpdateOffsets(context.Background(), "t", 0, vsym_Int64("off"))
	n, err := etcd.NextOffset(context.Background(), "t", 0)
	vsym_Assert(err != nil || n != 8, "C17/twin")
}
