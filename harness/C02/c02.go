package storage

import (
	"context"
	"encoding/binary"
)

// C02 — offsets are unique, contiguous and increasing per partition.

// VsymC02_AppendStep: one AppendBatch from an arbitrary next offset with an arbitrary batch
// header (every header field symbolic), then a second append of a well-formed batch.
func VsymC02_AppendStep() {
	ctx := context.Background()
	n := vsym_Param("n")
	next := vsym_Int64("next")
	vsym_Assume(next >= 0 && next < 1<<62)
	data := vsym_Bytes("records", n)
	delta := int32(binary.BigEndian.Uint32(data[23:27]))
	frameLen := int64(binary.BigEndian.Uint32(data[8:12])) + 12
	l := vsymNewLog(newVsymS3(), next, PartitionLogConfig{}, nil)
	batch, err := NewRecordBatchFromBytes(data)
	if err != nil {
		vsym_Reach("rejected")
		return
	}
	res, err := l.AppendBatch(ctx, batch)
	if err != nil {
		vsym_Reach("rejected")
		return
	}
	vsym_Reach("appended")
	vsym_Assert(res.BaseOffset == next, "C02/base-offset-is-next-offset")
	vsym_Assert(res.LastOffset >= res.BaseOffset, "C02/batch-occupies-at-least-one-offset")
	vsym_Assert(l.nextOffset == res.LastOffset+1 && l.nextOffset > next, "C02/next-offset-strictly-increases")
	vsym_Assert(res.LastOffset == next+int64(delta), "C02/last-offset-from-header-delta")
	stored := l.buffer.batches[0].Bytes
	vsym_Assert(int64(binary.BigEndian.Uint64(stored[0:8])) == next, "C02/stored-base-offset-patched")
	vsym_Assert(vsym_BytesEq(stored[8:], data[8:]), "C02/stored-bytes-unchanged-apart-from-base-offset")
	// Known finding: a record set holding more than the one batch frame its header describes is
	// stored whole but numbered as one batch.
	vsym_Known("C02-concatenated-batches-numbered-as-one", frameLen < int64(n))
	vsym_Assert(frameLen >= int64(n), "C02/every-stored-batch-frame-is-numbered")
	// the following batch abuts
	res2, err := l.AppendBatch(ctx, RecordBatch{LastOffsetDelta: 0, MessageCount: 1, Bytes: vsymBatch(1, nil)})
	vsym_Assert(err == nil && res2.BaseOffset == res.LastOffset+1, "C02/successive-batches-abut")
}

// VsymC02_History: three acknowledged produces with flushes and (solver-chosen) restarts in
// between: offsets of consecutive acknowledgements abut and the stored segments carry them.
func VsymC02_History() {
	ctx := context.Background()
	s3 := newVsymS3()
	l := vsymNewLog(s3, 0, PartitionLogConfig{}, nil)
	var prev *vsymAck
	for i := 0; i < vsym_Param("produces"); i++ {
		if i > 0 && vsym_Bool("restart") {
			vsym_Reach("restart")
			l = vsymNewLog(s3, 0, PartitionLogConfig{}, nil)
			_, err := l.RestoreFromS3(ctx)
			vsym_Assert(err == nil, "C02/restore-ok")
		}
		if prev != nil && vsym_Bool("orphan-then-crash") {
			// a produce whose segment reaches S3 but whose index upload fails is not acknowledged;
			// the broker then dies and restarts from the metadata store's next offset
			vsym_Reach("orphan")
			s3.failOp = "upload-index"
			_, ok := vsymProduce(ctx, l, vsymBatch(2, []byte{9, 9}))
			vsym_Assert(!ok, "C02/produce-with-failed-index-upload-is-not-acknowledged")
			l = vsymNewLog(s3, prev.last+1, PartitionLogConfig{}, nil)
			_, err := l.RestoreFromS3(ctx)
			vsym_Assert(err == nil, "C02/restore-ok")
		}
		count := []int32{1, 2, 1000}[vsym_Choose("count", 3)]
		ack, ok := vsymProduce(ctx, l, vsymBatch(count, vsym_Bytes("payload", 2)))
		vsym_Assert(ok, "C02/produce-acknowledged")
		if prev != nil {
			vsym_Assert(ack.base == prev.last+1, "C02/acknowledged-batches-abut-across-flush-and-restart")
		} else {
			vsym_Assert(ack.base == 0, "C02/first-offset-zero")
		}
		vsym_Assert(ack.last == ack.base+int64(count)-1, "C02/batch-spans-its-records")
		vsym_Assert(vsymDurable(s3, ack), "C02/acknowledged-batch-stored-at-its-offsets")
		a := ack
		prev = &a
	}
	vsym_Reach("history")
}

// VsymC02_RequeueOrder: a flush whose upload fails while another produce is appended meanwhile;
// the retried flush stores the batches in offset order and the log continues after them.
func VsymC02_RequeueOrder() {
	ctx := context.Background()
	s3 := newVsymS3()
	l := vsymNewLog(s3, 0, PartitionLogConfig{}, nil)
	nx, ny := int32(1+vsym_Choose("x-records", 2)), int32(1+vsym_Choose("y-records", 2))
	bx, _ := NewRecordBatchFromBytes(vsymBatch(nx, vsym_Bytes("x", 1)))
	rx, err := l.AppendBatch(ctx, bx)
	vsym_Assert(err == nil && rx.BaseOffset == 0, "C02/first-offset-zero")
	var ry *AppendResult
	done := false
	s3.onCall = func(op, key string) {
		if op != "upload-segment" || done {
			return
		}
		done = true
		by, _ := NewRecordBatchFromBytes(vsymBatch(ny, vsym_Bytes("y", 1)))
		r, err := l.AppendBatch(ctx, by)
		if err == nil {
			ry = r
		}
	}
	s3.failOp = "upload-segment"
	vsym_Assert(l.Flush(ctx) != nil, "C02/failed-upload-fails-the-flush")
	vsym_Assert(ry != nil && ry.BaseOffset == rx.LastOffset+1, "C02/successive-batches-abut")
	vsym_Assert(l.Flush(ctx) == nil, "C02/retried-flush-succeeds")
	vsym_Reach("requeued")
	// what S3 now holds, in key order, must list the offsets in increasing order without gaps
	next := int64(0)
	for _, key := range s3.puts {
		if len(key) < 4 || key[len(key)-4:] != ".kfs" {
			continue
		}
		seg := s3.objs[key]
		body := seg[32 : len(seg)-16]
		for len(body) > 0 {
			vsym_Assert(len(body) >= 61, "C02/stored-batch-frame")
			base := int64(binary.BigEndian.Uint64(body[0:8]))
			blen := int(binary.BigEndian.Uint32(body[8:12]))
			count := int64(binary.BigEndian.Uint32(body[57:61]))
			vsym_Assert(base == next, "C02/stored-batches-in-offset-order-without-gaps")
			next = base + count
			body = body[12+blen:]
		}
		last, perr := parseSegmentFooter(seg[len(seg)-16:])
		vsym_Assert(perr == nil && last == next-1, "C02/footer-names-the-last-offset")
	}
	vsym_Assert(next == int64(nx)+int64(ny), "C02/every-appended-batch-stored-once")
	// and a restart continues after them
	l2 := vsymNewLog(s3, 0, PartitionLogConfig{}, nil)
	lastRestored, rerr := l2.RestoreFromS3(ctx)
	vsym_Assert(rerr == nil && lastRestored == next-1, "C02/restart-continues-after-the-last-stored-offset")
}

func VsymC02_Twin() {
	l := vsymNewLog(newVsymS3(), vsym_Int64("next"), PartitionLogConfig{}, nil)
	res, _ := l.AppendBatch(context.Background(), RecordBatch{Bytes: vsymBatch(1, nil)})
	vsym_Assert(res.BaseOffset != 7, "C02/twin")
}
