package main

import (
	"context"
	"encoding/binary"

	"github.com/twmb/franz-go/pkg/kmsg"

	"github.com/KafScale/platform/pkg/metadata"
	"github.com/KafScale/platform/pkg/protocol"
)

// C28 — proxy metadata points clients at the proxy, topology intact.
//
// A cluster snapshot of nt topics x np partitions with symbolic error codes, leaders, epochs
// and topic ids sits in the real InMemoryStore; a Metadata request (all topics / by name / by
// topic id, chosen by the explorer) goes through the real loadMetadata and
// buildProxyMetadataResponse, is encoded by protocol.EncodeResponse and decoded by kmsg.

const (
	vsymProxyHost = "proxy.example"
	vsymProxyPort = int32(19092)
)

func vsymNewProxy(store metadata.Store) *proxy {
	return &proxy{advertisedHost: vsymProxyHost, advertisedPort: vsymProxyPort, store: store, apiVersions: generateProxyApiVersions()}
}

func VsymC28_Metadata() {
	nt, np := vsym_Param("topics"), vsym_Param("partitions")
	names := []string{"alpha", "beta", "gamma"}
	var topics []protocol.MetadataTopic
	for i := 0; i < nt; i++ {
		t := protocol.MetadataTopic{Topic: kmsg.StringPtr(names[i]), TopicID: metadata.TopicIDForName(names[i]), ErrorCode: vsym_Int16("topicErr")}
		for p := 0; p < np; p++ {
			t.Partitions = append(t.Partitions, protocol.MetadataPartition{
				ErrorCode:   vsym_Int16("partErr"),
				Partition:   int32(p),
				Leader:      vsym_Int32("leader"),
				LeaderEpoch: vsym_Int32("epoch"),
				Replicas:    []int32{vsym_Int32("replica"), 7},
				ISR:         []int32{vsym_Int32("isr")},
			})
		}
		topics = append(topics, t)
	}
	clusterID := "cluster-1"
	store := metadata.NewInMemoryStore(metadata.ClusterMetadata{
		Brokers:      []protocol.MetadataBroker{{NodeID: 4, Host: "b4", Port: 9092}, {NodeID: 5, Host: "b5", Port: 9092}},
		ControllerID: 5,
		ClusterID:    &clusterID,
		Topics:       topics,
	})
	p := vsymNewProxy(store)
	req := kmsg.NewPtrMetadataRequest()
	version := int16(vsym_Param("version"))
	req.Version = version
	mode := vsym_Choose("request", 4)
	var want []int // indices of topics expected in the reply, in order; -1 = unknown-name placeholder
	switch mode {
	case 0: // all topics
		req.Topics = nil
		for i := range topics {
			want = append(want, i)
		}
	case 1: // by name: the last topic and an unknown name
		if nt == 0 {
			vsym_Assume(false)
		}
		rt := kmsg.NewMetadataRequestTopic()
		rt.Topic = kmsg.StringPtr(names[nt-1])
		ru := kmsg.NewMetadataRequestTopic()
		ru.Topic = kmsg.StringPtr("ghost")
		req.Topics = append(req.Topics, rt, ru)
		want = []int{nt - 1, -1}
	case 2: // by topic id: the first topic
		if nt == 0 {
			vsym_Assume(false)
		}
		rt := kmsg.NewMetadataRequestTopic()
		rt.TopicID = topics[0].TopicID
		req.Topics = append(req.Topics, rt)
		want = []int{0}
	case 3: // by an unknown topic id
		rt := kmsg.NewMetadataRequestTopic()
		rt.TopicID = [16]byte{9, 9, 9}
		req.Topics = append(req.Topics, rt)
		want = []int{-2}
	}
	meta, err := p.loadMetadata(context.Background(), req)
	vsym_Assert(err == nil, "C28/metadata-loads")
	corr := vsym_Int32("correlation")
	resp := buildProxyMetadataResponse(meta, corr, version, p.advertisedHost, p.advertisedPort)
	out := protocol.EncodeResponse(corr, version, resp)
	dec := kmsg.NewPtrMetadataResponse()
	dec.Version = version
	body := out[4:]
	if dec.IsFlexible() {
		body = body[1:]
	}
	vsym_Assert(int32(binary.BigEndian.Uint32(out[:4])) == corr && dec.ReadFrom(body) == nil, "C28/reply-decodes")
	vsym_Reach("replied")
	// only the proxy is named
	vsym_Assert(len(dec.Brokers) == 1 && dec.Brokers[0].NodeID == 0 && dec.Brokers[0].Host == vsymProxyHost && dec.Brokers[0].Port == vsymProxyPort, "C28/only-the-proxy-is-a-broker")
	vsym_Assert(dec.ControllerID == 0, "C28/controller-is-the-proxy")
	// topology intact
	vsym_Assert(len(dec.Topics) == len(want), "C28/topic-set-preserved")
	for k, wi := range want {
		got := dec.Topics[k]
		if wi < 0 {
			vsym_Assert(got.ErrorCode != 0 && len(got.Partitions) == 0, "C28/unknown-topic-reported-as-error")
			continue
		}
		src := topics[wi]
		vsym_Assert(got.Topic != nil && *got.Topic == *src.Topic, "C28/topic-name-preserved")
		if version >= 10 {
			vsym_Assert(got.TopicID == src.TopicID, "C28/topic-id-preserved")
		}
		vsym_Assert(got.ErrorCode == src.ErrorCode, "C28/topic-error-preserved")
		vsym_Assert(len(got.Partitions) == len(src.Partitions), "C28/partition-set-preserved")
		for pi, gp := range got.Partitions {
			sp := src.Partitions[pi]
			vsym_Assert(gp.Partition == sp.Partition, "C28/partition-id-preserved")
			vsym_Assert(gp.ErrorCode == sp.ErrorCode, "C28/partition-error-preserved")
			if version >= 7 {
				vsym_Assert(gp.LeaderEpoch == sp.LeaderEpoch, "C28/leader-epoch-preserved")
			}
			vsym_Assert(gp.Leader == 0, "C28/partition-leader-is-the-proxy")
			for _, r := range gp.Replicas {
				vsym_Assert(r == 0, "C28/replicas-name-only-the-proxy")
			}
			for _, r := range gp.ISR {
				vsym_Assert(r == 0, "C28/isr-names-only-the-proxy")
			}
		}
	}
}

func VsymC28_Coordinator() {
	p := vsymNewProxy(metadata.NewInMemoryStore(metadata.ClusterMetadata{}))
	corr := vsym_Int32("correlation")
	out, err := p.handleFindCoordinator(&protocol.RequestHeader{APIKey: 10, APIVersion: 3, CorrelationID: corr})
	vsym_Assert(err == nil, "C28/coordinator-reply")
	dec := kmsg.NewPtrFindCoordinatorResponse()
	dec.Version = 3
	body := out[5:] // correlation id + empty tagged-field section of the flexible header
	vsym_Assert(int32(binary.BigEndian.Uint32(out[:4])) == corr && out[4] == 0 && dec.ReadFrom(body) == nil, "C28/coordinator-reply-decodes")
	vsym_Reach("coordinator")
	vsym_Assert(dec.ErrorCode == 0 && dec.NodeID == 0 && dec.Host == vsymProxyHost && dec.Port == vsymProxyPort, "C28/coordinator-is-the-proxy")
}

func VsymC28_Twin() {
	store := metadata.NewInMemoryStore(metadata.ClusterMetadata{Topics: []protocol.MetadataTopic{{Topic: kmsg.StringPtr("alpha"), Partitions: []protocol.MetadataPartition{{Leader: vsym_Int32("l")}}}}})
	meta, _ := store.Metadata(context.Background(), nil)
	resp := buildProxyMetadataResponse(meta, 1, 4, "h", 1)
	vsym_Assert(len(resp.Topics) == 0, "C28/twin")
}
