package main

import (
	"context"
	"encoding/binary"
	"errors"
	"io"
	"log/slog"
	"net"
	"time"

	"github.com/twmb/franz-go/pkg/kmsg"

	"github.com/KafScale/platform/pkg/metadata"
	"github.com/KafScale/platform/pkg/protocol"
)

// C28 (connection level) — whatever coordinator a client asks for, and whatever Metadata version it
// speaks, the reply it reads from a ready proxy names the proxy. A scripted client sends one
// request through the real handleConnection; a scripted backend stands behind the proxy's
// (source-rewritten) TCP dial and answers every forwarded request the way a broker would:
// naming itself.

type vsymC28Key struct{}

type vsymC28Ctx struct {
	context.Context
	forwarded *int
}

func (c vsymC28Ctx) Value(k any) any {
	if _, ok := k.(vsymC28Key); ok {
		return c.forwarded
	}
	return c.Context.Value(k)
}

type vsymC28Pipe struct {
	in      []byte
	out     []byte
	backend bool
	count   *int
	closed  bool
}

func (c *vsymC28Pipe) Read(p []byte) (int, error) {
	if len(c.in) == 0 {
		return 0, io.EOF
	}
	n := copy(p, c.in)
	c.in = c.in[n:]
	return n, nil
}
func (c *vsymC28Pipe) Write(p []byte) (int, error) {
	if c.closed {
		return 0, errors.New("vsym: closed")
	}
	c.out = append(c.out, p...)
	if !c.backend {
		return len(p), nil
	}
	for len(c.out) >= 4 {
		n := int(binary.BigEndian.Uint32(c.out[:4]))
		if len(c.out) < 4+n {
			break
		}
		frame := c.out[4 : 4+n]
		c.out = c.out[4+n:]
		hdr, req, err := protocol.ParseRequest(frame)
		if err != nil {
			continue
		}
		*c.count++
		var resp kmsg.Response
		switch req.(type) {
		case *kmsg.FindCoordinatorRequest:
			r := kmsg.NewPtrFindCoordinatorResponse()
			r.NodeID, r.Host, r.Port = 1, "broker-1.internal", 19092
			resp = r
		default:
			resp = req.ResponseKind()
		}
		resp.SetVersion(hdr.APIVersion)
		payload := protocol.EncodeResponse(hdr.CorrelationID, hdr.APIVersion, resp)
		c.in = binary.BigEndian.AppendUint32(c.in, uint32(len(payload)))
		c.in = append(c.in, payload...)
	}
	return len(p), nil
}
func (c *vsymC28Pipe) Close() error                       { c.closed = true; return nil }
func (c *vsymC28Pipe) LocalAddr() net.Addr                { return nil }
func (c *vsymC28Pipe) RemoteAddr() net.Addr               { return nil }
func (c *vsymC28Pipe) SetDeadline(t time.Time) error      { return nil }
func (c *vsymC28Pipe) SetReadDeadline(t time.Time) error  { return nil }
func (c *vsymC28Pipe) SetWriteDeadline(t time.Time) error { return nil }

func vsymC28Dial(ctx context.Context, d net.Dialer, addr string) (net.Conn, error) {
	if n, ok := ctx.Value(vsymC28Key{}).(*int); ok {
		return &vsymC28Pipe{backend: true, count: n}, nil
	}
	return d.DialContext(ctx, "tcp", addr)
}

func VsymC28_Connection() {
	if vsym_Symbolic() {
		vsym_Override("time.Now", func() time.Time { return time.Unix(1700000000, 0) })
	}
	store := metadata.NewInMemoryStore(metadata.ClusterMetadata{
		Brokers:      []protocol.MetadataBroker{{NodeID: 1, Host: "broker-1.internal", Port: 19092}},
		ControllerID: 1,
		Topics:       []protocol.MetadataTopic{{Topic: kmsg.StringPtr("alpha"), TopicID: metadata.TopicIDForName("alpha"), Partitions: []protocol.MetadataPartition{{Partition: 0, Leader: 1, Replicas: []int32{1}, ISR: []int32{1}}}}},
	})
	p := vsymNewProxy(store)
	p.logger = slog.New(slog.NewTextHandler(io.Discard, nil))
	p.backends = []string{"broker-1.internal:19092"}
	p.dialTimeout = time.Second
	p.topicNames = map[[16]byte]string{}
	p.brokerAddrs = map[string]string{}
	p.setReady(true)
	forwarded := 0
	ctx := vsymC28Ctx{context.Background(), &forwarded}
	corr := vsym_Int32("correlation")
	cid := "c"
	var req kmsg.Request
	which := vsym_Choose("request", 2)
	version := int16(0)
	switch which {
	case 0:
		fc := kmsg.NewPtrFindCoordinatorRequest()
		version = 3
		fc.Version = version
		fc.CoordinatorKey = "k"
		fc.CoordinatorType = int8(vsym_Choose("coordinator-type", 2)) // 0 group, 1 transaction
		req = fc
	case 1:
		md := kmsg.NewPtrMetadataRequest()
		version = []int16{0, 1, 4, 12}[vsym_Choose("metadata-version", 4)]
		md.Version = version
		if version == 0 {
			md.Topics = []kmsg.MetadataRequestTopic{} // v0 has no null array: empty means every topic
		} else {
			md.Topics = nil
		}
		req = md
	}
	hdr := &protocol.RequestHeader{APIKey: req.Key(), APIVersion: version, CorrelationID: corr, ClientID: &cid}
	var frame []byte
	switch r := req.(type) {
	case *kmsg.FindCoordinatorRequest:
		f := kmsg.NewRequestFormatter(kmsg.FormatterClientID(cid))
		frame = f.AppendRequest(nil, r, corr)
	case *kmsg.MetadataRequest:
		f := kmsg.NewRequestFormatter(kmsg.FormatterClientID(cid))
		frame = f.AppendRequest(nil, r, corr)
	}
	_ = hdr
	client := &vsymC28Pipe{in: frame}
	p.handleConnection(ctx, client)
	vsym_Reach("connection-served")
	out := client.out
	vsym_Assert(len(out) >= 8, "C28/client-gets-a-reply")
	n := int(binary.BigEndian.Uint32(out[:4]))
	vsym_Assert(len(out) >= 4+n && int32(binary.BigEndian.Uint32(out[4:8])) == corr, "C28/reply-decodes")
	body := out[8 : 4+n]
	switch which {
	case 0:
		resp := kmsg.NewPtrFindCoordinatorResponse()
		resp.Version = version
		if resp.IsFlexible() {
			body = body[1:]
		}
		vsym_Assert(resp.ReadFrom(body) == nil, "C28/reply-decodes")
		vsym_Assert(resp.NodeID == 0 && resp.Host == vsymProxyHost && resp.Port == vsymProxyPort, "C28/coordinator-is-the-proxy")
	case 1:
		resp := kmsg.NewPtrMetadataResponse()
		resp.Version = version
		if resp.IsFlexible() {
			body = body[1:]
		}
		vsym_Assert(resp.ReadFrom(body) == nil, "C28/reply-decodes")
		vsym_Assert(len(resp.Brokers) == 1 && resp.Brokers[0].Host == vsymProxyHost && resp.Brokers[0].Port == vsymProxyPort, "C28/only-the-proxy-is-a-broker")
		vsym_Assert(len(resp.Topics) == 1 && resp.Topics[0].Topic != nil && *resp.Topics[0].Topic == "alpha" && len(resp.Topics[0].Partitions) == 1, "C28/topic-set-preserved")
		vsym_Assert(resp.Topics[0].Partitions[0].Leader == 0, "C28/partition-leader-is-the-proxy")
	}
}
