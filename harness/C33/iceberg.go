package processor

import (
	"context"
	"encoding/json"
	"errors"
	"io"
	"time"

	"github.com/KafScale/platform/addons/processors/iceberg-processor/internal/checkpoint"
	"github.com/KafScale/platform/addons/processors/iceberg-processor/internal/config"
	"github.com/KafScale/platform/addons/processors/iceberg-processor/internal/decoder"
	"github.com/KafScale/platform/addons/processors/iceberg-processor/internal/discovery"
	"github.com/KafScale/platform/addons/processors/iceberg-processor/internal/sink"
	"github.com/KafScale/platform/pkg/lfs"
	"github.com/prometheus/client_golang/prometheus"
)

// C33 (Iceberg processor) — every record of every completed segment of the leased partition
// reaches the sink at least once, and the checkpoint never passes an unwritten record, for any
// schedule of transient listing / lease / checkpoint / decoding / sink failures.
//
// The real Run loop is driven for `cycles` polling ticks (virtual ticker). The lister, decoder,
// sink and checkpoint store are scripted: each call may fail (symbolic bit, bounded budget).
// Checked: at every successful CommitOffset(o), every record with offset <= o was written; after
// a polling cycle in which nothing failed, every record of the leased partition was written.

var errVsymTransient = errors.New("vsym: transient failure")

type vsymC33World struct {
	segs        []discovery.SegmentRef
	recs        map[string][]decoder.Record
	offs        []int64 // offset of record i (record i carries Key = {i})
	part        []int32
	written     []bool
	committed   map[int32]int64
	hasCommit   map[int32]bool
	budget      int
	calls       int
	cycleBad    bool // something failed in the current polling cycle
	cycles      int
	leased      int32
	hasLease    bool
	persist     bool
	renewFaults bool // lease renewals may fail (the worker then loses its lease and claims again)
	renewals    bool // the harness also fires the lease-renewal ticker between polls
	lostOnce    bool
	takenBy     int32 // partition held by another worker after the lease was lost (-1: none)
}

func (w *vsymC33World) fault(what string) bool {
	w.calls++
	// (one sequence of fault bits per kind of call: a native run that makes a few more calls of
	// one kind than the executor did then still gives every call the same verdict)
	if w.budget > 0 && vsym_Bool("fault-"+what) {
		w.budget--
		w.cycleBad = true
		return true
	}
	return false
}

// endCycle: called when the next cycle starts or the run ends
func (w *vsymC33World) endCycle() {
	if w.cycles > 0 && !w.cycleBad && w.hasLease {
		for i := range w.offs {
			if w.part[i] == w.leased {
				vsym_Assert(w.written[i], "C33/every-record-written-after-a-clean-polling-cycle")
			}
		}
		vsym_Reach("clean-cycle")
	}
	w.cycleBad = false
}

type vsymC33Lister struct{ w *vsymC33World }

func (l vsymC33Lister) ListCompleted(ctx context.Context) ([]discovery.SegmentRef, error) {
	l.w.endCycle()
	l.w.cycles++
	if l.w.fault("list") {
		return nil, errVsymTransient
	}
	return l.w.segs, nil
}

type vsymC33Decoder struct{ w *vsymC33World }

func (d vsymC33Decoder) Decode(ctx context.Context, segmentKey, indexKey, topic string, partition int32) ([]decoder.Record, error) {
	if d.w.fault("decode") {
		return nil, errVsymTransient
	}
	src := d.w.recs[segmentKey]
	out := make([]decoder.Record, len(src))
	copy(out, src)
	return out, nil
}

type vsymC33Sink struct{ w *vsymC33World }

func (s vsymC33Sink) Write(ctx context.Context, records []sink.Record) error {
	if s.w.fault("sink") {
		return errVsymTransient
	}
	for _, r := range records {
		i := int(r.Key[0])
		vsym_Assert(r.Offset == s.w.offs[i], "C33/record-written-with-its-own-offset")
		s.w.written[i] = true
	}
	return nil
}
func (s vsymC33Sink) Close(ctx context.Context) error { return nil }

type vsymC33Store struct{ w *vsymC33World }

func (s vsymC33Store) ClaimLease(ctx context.Context, topic string, partition int32, ownerID string) (checkpoint.Lease, error) {
	if s.w.fault("claim") {
		return checkpoint.Lease{}, errVsymTransient
	}
	if s.w.lostOnce && partition == s.w.takenBy {
		// after this worker lost its lease another worker holds that partition: not a transient
		// failure, the worker moves on to the next partition
		return checkpoint.Lease{}, errVsymTransient
	}
	s.w.leased, s.w.hasLease = partition, true
	return checkpoint.Lease{Topic: topic, Partition: partition, OwnerID: ownerID}, nil
}
func (s vsymC33Store) RenewLease(ctx context.Context, lease checkpoint.Lease) error {
	if s.w.renewFaults && s.w.fault("renew") {
		s.w.lostOnce = true
		s.w.takenBy = -1
		if vsym_Bool("another-worker-takes-the-partition") {
			s.w.takenBy = lease.Partition
		}
		return errVsymTransient
	}
	return nil
}
func (s vsymC33Store) ReleaseLease(ctx context.Context, lease checkpoint.Lease) error {
	return nil
}
func (s vsymC33Store) LoadOffset(ctx context.Context, topic string, partition int32) (checkpoint.OffsetState, error) {
	if s.w.fault("load") {
		return checkpoint.OffsetState{}, errVsymTransient
	}
	if !s.w.hasCommit[partition] {
		// what the etcd store answers for a partition without a checkpoint
		return checkpoint.OffsetState{Topic: topic, Partition: partition, Offset: -1}, nil
	}
	return checkpoint.OffsetState{Topic: topic, Partition: partition, Offset: s.w.committed[partition]}, nil
}
func (s vsymC33Store) CommitOffset(ctx context.Context, st checkpoint.OffsetState) error {
	if s.w.fault("commit") {
		return errVsymTransient
	}
	s.w.checkCommit(st.Partition, st.Offset)
	s.w.committed[st.Partition], s.w.hasCommit[st.Partition] = st.Offset, true
	return nil
}

func (w *vsymC33World) checkCommit(p int32, o int64) {
	for i := range w.offs {
		if w.part[i] == p && !w.written[i] {
			vsym_Assert(w.offs[i] > o, "C33/checkpoint-never-passes-an-unwritten-record")
		}
	}
	vsym_Reach("commit")
}

// vsymC33NoopStore wraps the real store the processor gets without an offsets backend and
// observes the checkpoints it is handed.
type vsymC33Observed struct {
	checkpoint.Store
	w *vsymC33World
}

func (s vsymC33Observed) ClaimLease(ctx context.Context, topic string, partition int32, ownerID string) (checkpoint.Lease, error) {
	l, err := s.Store.ClaimLease(ctx, topic, partition, ownerID)
	if err == nil {
		s.w.leased, s.w.hasLease = partition, true
	}
	return l, err
}
func (s vsymC33Observed) CommitOffset(ctx context.Context, st checkpoint.OffsetState) error {
	s.w.checkCommit(st.Partition, st.Offset)
	return s.Store.CommitOffset(ctx, st)
}

// BEGIN iceberg-only
// vsymC33Blobs is the LFS object store: a fetch may fail transiently
type vsymC33Blobs struct{ w *vsymC33World }

func (b vsymC33Blobs) Fetch(ctx context.Context, key string) ([]byte, error) {
	if b.w.fault("lfs") {
		return nil, errVsymTransient
	}
	return []byte("blob:" + key), nil
}
func (b vsymC33Blobs) Stream(ctx context.Context, key string) (io.ReadCloser, int64, error) {
	return nil, 0, errors.New("vsym: streaming not modelled")
}

// END iceberg-only

type vsymC33Counter struct{ prometheus.Counter }

func (vsymC33Counter) Inc()        {}
func (vsymC33Counter) Add(float64) {}

type vsymC33Gauge struct{ prometheus.Gauge }

func (vsymC33Gauge) Set(float64) {}

type vsymC33Obs struct{ prometheus.Observer }

func (vsymC33Obs) Observe(float64) {}

func vsymC33Quiet() {
	if vsym_Symbolic() {
		vsym_Override("(*github.com/prometheus/client_golang/prometheus.CounterVec).WithLabelValues", func(v *prometheus.CounterVec, lvs ...string) prometheus.Counter { return vsymC33Counter{} })
		vsym_Override("(*github.com/prometheus/client_golang/prometheus.GaugeVec).WithLabelValues", func(v *prometheus.GaugeVec, lvs ...string) prometheus.Gauge { return vsymC33Gauge{} })
		vsym_Override("(*github.com/prometheus/client_golang/prometheus.HistogramVec).WithLabelValues", func(v *prometheus.HistogramVec, lvs ...string) prometheus.Observer { return vsymC33Obs{} })
	}
}

// newVsymC33World: partition 0 of topic t has nseg completed segments of 2 records each starting
// at a symbolic offset; partition 1 has one segment.
func newVsymC33World(nseg int) *vsymC33World {
	w := &vsymC33World{recs: map[string][]decoder.Record{}, committed: map[int32]int64{}, hasCommit: map[int32]bool{}}
	start := vsym_Int64("start")
	vsym_Assume(vsym_And(start >= 0, start < 1<<40))
	next := start
	id := 0
	add := func(p int32, key string, base int64, n int) {
		w.segs = append(w.segs, discovery.SegmentRef{Topic: "t", Partition: p, BaseOffset: base, SegmentKey: key, IndexKey: key + ".index"})
		for j := 0; j < n; j++ {
			w.recs[key] = append(w.recs[key], decoder.Record{Topic: "t", Partition: p, Offset: base + int64(j), Timestamp: 1000 + int64(id), Key: []byte{byte(id)}, Value: []byte{byte('a' + id)}})
			w.offs = append(w.offs, base+int64(j))
			w.part = append(w.part, p)
			w.written = append(w.written, false)
			id++
		}
	}
	for s := 0; s < nseg; s++ {
		add(0, "t/0/seg"+string(rune('0'+s)), next, 2)
		next += 2
	}
	add(1, "t/1/seg0", 0, 1)
	return w
}

func vsymC33Drive(w *vsymC33World, p *Processor, cycles int) {
	vsymC33Quiet()
	if vsym_Symbolic() {
		// virtual time: the clock is pinned, only the harness fires the polling ticker
		vsym_Override("time.Now", func() time.Time { return time.Unix(1700000000, 0) })
	}
	ctx, cancel := context.WithCancel(context.Background())
	done := make(chan struct{})
	vsym_Spawn(func() {
		defer close(done)
		_ = p.Run(ctx)
	})
	vsym_SettleMillis(150)
	vsym_Settle()
	for c := 0; c < cycles; c++ {
		vsym_FireTimer(0, 0)
		seen := c + 1
		vsym_Await(func() bool { return w.cycles >= seen }) // (natively: the real ticker's next tick)
		vsym_Settle()
		if w.renewals && w.hasLease && vsym_Bool("renewal-fires") {
			// the lease-renewal ticker (created when the lease was claimed) fires between polls
			vsym_FireTimer(-1, 0)
			vsym_Settle()
		}
	}
	cancel()
	<-done
	vsym_Join()
	w.endCycle()
	vsym_Reach("ran")
}

// VsymC33_IcebergFaults: scripted store with etcd-like semantics, transient failures anywhere.
func VsymC33_IcebergFaults() {
	w := newVsymC33World(vsym_Param("segments"))
	w.budget = vsym_Param("faults")
	if vsym_Param("renewals") == 1 {
		w.renewals, w.renewFaults = true, true
		if !vsym_Symbolic() {
			leaseRenewInterval = 700 * time.Millisecond // natively: once between two polls
		}
	}
	cfg := config.Config{}
	cfg.Processor.PollIntervalSeconds = 1
	p := &Processor{cfg: cfg, discover: vsymC33Lister{w}, decode: vsymC33Decoder{w}, store: vsymC33Store{w}, sink: vsymC33Sink{w}, mappingByTopic: map[string]config.Mapping{}}
	vsymC33Drive(w, p, vsym_Param("cycles"))
}

// BEGIN iceberg-only
// VsymC33_IcebergLfs: topic t is mapped with lfs mode "resolve"; the second record of every
// segment of partition 0 is an LFS envelope whose blob fetch may fail transiently.
func VsymC33_IcebergLfs() {
	w := newVsymC33World(vsym_Param("segments"))
	w.budget = vsym_Param("faults")
	envelopes := map[string]bool{}
	for key, recs := range w.recs {
		if len(recs) < 2 || recs[1].Partition != 0 {
			continue
		}
		env, err := json.Marshal(lfs.Envelope{Version: 1, Bucket: "b", Key: "obj-" + key, SHA256: "00", Size: 4})
		vsym_Assert(err == nil, "C33/setup-envelope")
		recs[1].Value = env
		envelopes[string(env)] = true
	}
	if vsym_Symbolic() {
		// (encoding/json is the engine's abstract codec: the envelope bytes are an opaque token,
		// so the textual marker test is answered for the values this harness made)
		vsym_Override("github.com/KafScale/platform/pkg/lfs.IsLfsEnvelope", func(value []byte) bool { return envelopes[string(value)] })
	}
	off := false
	cfg := config.Config{}
	cfg.Processor.PollIntervalSeconds = 1
	m := config.Mapping{Topic: "t"}
	m.Lfs.Mode, m.Lfs.ValidateChecksum, m.Lfs.ResolveConcurrency = "resolve", &off, 1
	p := &Processor{cfg: cfg, discover: vsymC33Lister{w}, decode: vsymC33Decoder{w}, store: vsymC33Store{w}, sink: vsymC33Sink{w}, lfsS3: vsymC33Blobs{w}, mappingByTopic: map[string]config.Mapping{"t": m}}
	vsymC33Drive(w, p, vsym_Param("cycles"))
}

// END iceberg-only

// VsymC33_IcebergNoBackend: the store the processor is built with when no offsets backend is
// configured (checkpoint.New), no failures: the partition's first record must still be written.
func VsymC33_IcebergNoBackend() {
	w := newVsymC33World(vsym_Param("segments"))
	cfg := config.Config{}
	cfg.Processor.PollIntervalSeconds = 1
	cfg.Offsets.Backend = "none"
	st, err := checkpoint.New(cfg)
	vsym_Assert(err == nil, "C33/store-built")
	p := &Processor{cfg: cfg, discover: vsymC33Lister{w}, decode: vsymC33Decoder{w}, store: vsymC33Observed{st, w}, sink: vsymC33Sink{w}, mappingByTopic: map[string]config.Mapping{}}
	vsymC33Drive(w, p, 1)
}

func VsymC33_IcebergTwin() {
	w := newVsymC33World(1)
	cfg := config.Config{}
	cfg.Processor.PollIntervalSeconds = 1
	p := &Processor{cfg: cfg, discover: vsymC33Lister{w}, decode: vsymC33Decoder{w}, store: vsymC33Store{w}, sink: vsymC33Sink{w}, mappingByTopic: map[string]config.Mapping{}}
	vsymC33Drive(w, p, 1)
	vsym_Assert(!w.written[0], "C33/twin")
}
