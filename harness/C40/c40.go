package mcpserver

import (
	"context"
	"time"

	"github.com/twmb/franz-go/pkg/kmsg"

	metadatapb "github.com/KafScale/platform/pkg/gen/metadata"
	"github.com/KafScale/platform/pkg/metadata"
	"github.com/KafScale/platform/pkg/protocol"
)

// C40 — the ops MCP tools never change cluster state.
//
// Every tool handler constructor of tools.go is invoked (tool chosen by the instance parameter)
// with arguments chosen by the explorer (topic and group names from {"", t, u, ghost}, empty or
// filled lists) against a store that holds topics, offsets, a group and a topic configuration.
// The store sits behind a monitor that records every mutating Store method; a fingerprint of
// the store's contents is taken before and after.

type vsymMonStore40 struct {
	*metadata.InMemoryStore
	mutations []string
}

func (s *vsymMonStore40) UpdateOffsets(ctx context.Context, topic string, partition int32, lastOffset int64) error {
	s.mutations = append(s.mutations, "UpdateOffsets")
	return s.InMemoryStore.UpdateOffsets(ctx, topic, partition, lastOffset)
}
func (s *vsymMonStore40) CommitConsumerOffset(ctx context.Context, group, topic string, partition int32, offset int64, md string) error {
	s.mutations = append(s.mutations, "CommitConsumerOffset")
	return s.InMemoryStore.CommitConsumerOffset(ctx, group, topic, partition, offset, md)
}
func (s *vsymMonStore40) PutConsumerGroup(ctx context.Context, g *metadatapb.ConsumerGroup) error {
	s.mutations = append(s.mutations, "PutConsumerGroup")
	return s.InMemoryStore.PutConsumerGroup(ctx, g)
}
func (s *vsymMonStore40) DeleteConsumerGroup(ctx context.Context, id string) error {
	s.mutations = append(s.mutations, "DeleteConsumerGroup")
	return s.InMemoryStore.DeleteConsumerGroup(ctx, id)
}
func (s *vsymMonStore40) UpdateTopicConfig(ctx context.Context, cfg *metadatapb.TopicConfig) error {
	s.mutations = append(s.mutations, "UpdateTopicConfig")
	return s.InMemoryStore.UpdateTopicConfig(ctx, cfg)
}
func (s *vsymMonStore40) CreatePartitions(ctx context.Context, topic string, n int32) error {
	s.mutations = append(s.mutations, "CreatePartitions")
	return s.InMemoryStore.CreatePartitions(ctx, topic, n)
}
func (s *vsymMonStore40) CreateTopic(ctx context.Context, spec metadata.TopicSpec) (*protocol.MetadataTopic, error) {
	s.mutations = append(s.mutations, "CreateTopic")
	return s.InMemoryStore.CreateTopic(ctx, spec)
}
func (s *vsymMonStore40) DeleteTopic(ctx context.Context, name string) error {
	s.mutations = append(s.mutations, "DeleteTopic")
	return s.InMemoryStore.DeleteTopic(ctx, name)
}

func vsymC40Fingerprint(s *metadata.InMemoryStore) int64 {
	ctx := context.Background()
	var fp int64
	md, _ := s.Metadata(ctx, nil)
	for _, t := range md.Topics {
		fp = fp*31 + int64(len(*t.Topic)) + int64(len(t.Partitions))*7
		for _, p := range t.Partitions {
			n, _ := s.NextOffset(ctx, *t.Topic, p.Partition)
			fp = fp*31 + n
			o, m, _ := s.FetchConsumerOffset(ctx, "g", *t.Topic, p.Partition)
			fp = fp*31 + o + int64(len(m))
		}
		if cfg, err := s.FetchTopicConfig(ctx, *t.Topic); err == nil && cfg != nil {
			fp = fp*31 + cfg.RetentionMs
		}
	}
	// (groups come out of a map: the contribution of each must not depend on the order)
	gs, _ := s.ListConsumerGroups(ctx)
	var gsum int64
	for _, g := range gs {
		gsum += int64(g.GenerationId)*131 + int64(len(g.Members))*7 + int64(len(g.GroupId)) + int64(len(g.State))*1009
	}
	return fp*31 + gsum
}

var vsymC40Names = []string{"", "t", "u", "ghost"}

func vsymC40List(tag string) []string {
	switch vsym_Choose(tag+"-shape", 3) {
	case 0:
		return nil
	case 1:
		return []string{vsymC40Names[vsym_Choose(tag, len(vsymC40Names))]}
	}
	return []string{vsymC40Names[vsym_Choose(tag, len(vsymC40Names))], vsymC40Names[vsym_Choose(tag, len(vsymC40Names))]}
}

func VsymC40_ReadOnly() {
	if vsym_Symbolic() {
		vsym_Override("time.Now", func() time.Time { return time.Unix(1700000000, 0) })
	}
	ctx := context.Background()
	mk := func(name string, n int) protocol.MetadataTopic {
		t := protocol.MetadataTopic{Topic: kmsg.StringPtr(name), TopicID: metadata.TopicIDForName(name)}
		for p := 0; p < n; p++ {
			t.Partitions = append(t.Partitions, protocol.MetadataPartition{Partition: int32(p), Leader: 1, Replicas: []int32{1}, ISR: []int32{1}})
		}
		return t
	}
	build := func() *metadata.InMemoryStore {
		st := metadata.NewInMemoryStore(metadata.ClusterMetadata{Brokers: []protocol.MetadataBroker{{NodeID: 1, Host: "b", Port: 9092}}, ControllerID: 1, Topics: []protocol.MetadataTopic{mk("t", 2), mk("u", 1)}})
		_ = st.UpdateOffsets(ctx, "t", 0, 41)
		_ = st.CommitConsumerOffset(ctx, "g", "t", 0, 17, "m")
		_ = st.PutConsumerGroup(ctx, &metadatapb.ConsumerGroup{GroupId: "g", State: "stable", GenerationId: 3, Members: map[string]*metadatapb.GroupMember{"m1": {}}})
		_ = st.PutConsumerGroup(ctx, &metadatapb.ConsumerGroup{GroupId: "d", State: "dead", GenerationId: 9})
		_ = st.PutConsumerGroup(ctx, &metadatapb.ConsumerGroup{GroupId: "e", State: "empty", GenerationId: 2})
		_ = st.UpdateTopicConfig(ctx, &metadatapb.TopicConfig{Name: "t", Partitions: 2, RetentionMs: 1234})
		return st
	}
	base, control := build(), build() // control: the same store, never shown to a tool
	mon := &vsymMonStore40{InMemoryStore: base}
	opts := Options{Store: mon}
	before := vsymC40Fingerprint(base)
	mon.mutations = nil
	group := []string{"", "g", "d", "e", "ghost"}[vsym_Choose("group", 5)]
	var err error
	switch vsym_Param("tool") {
	case 0:
		_, _, err = clusterStatusHandler(opts)(ctx, nil, emptyInput{})
	case 1:
		_, _, err = clusterMetricsHandler(opts)(ctx, nil, emptyInput{})
	case 2:
		_, _, err = listTopicsHandler(opts)(ctx, nil, emptyInput{})
	case 3:
		_, _, err = describeTopicsHandler(opts)(ctx, nil, TopicNameInput{Names: vsymC40List("names")})
	case 4:
		_, _, err = listGroupsHandler(opts)(ctx, nil, emptyInput{})
	case 5:
		_, _, err = describeGroupHandler(opts)(ctx, nil, GroupInput{GroupID: group})
	case 6:
		_, _, err = fetchOffsetsHandler(opts)(ctx, nil, FetchOffsetsInput{GroupID: group, Topics: vsymC40List("topics")})
	case 7:
		_, _, err = describeConfigsHandler(opts)(ctx, nil, TopicConfigInput{Topics: vsymC40List("topics")})
	}
	if err == nil {
		vsym_Reach("answered")
	} else {
		vsym_Reach("refused")
	}
	vsym_Assert(len(mon.mutations) == 0, "C40/tool-calls-no-mutating-store-method")
	vsym_Assert(vsymC40Fingerprint(base) == before, "C40/store-contents-unchanged")
	// hidden state: the inspected store must go on behaving like the control store. The cluster
	// snapshot then changes (u grows to 3 partitions, a new topic v appears) and both are read.
	next := metadata.ClusterMetadata{Brokers: []protocol.MetadataBroker{{NodeID: 1, Host: "b", Port: 9092}}, ControllerID: 1, Topics: []protocol.MetadataTopic{mk("t", 2), mk("u", 3), mk("v", 1)}}
	base.Update(next)
	control.Update(next)
	vsym_Assert(vsymC40Fingerprint(base) == vsymC40Fingerprint(control), "C40/inspected-store-behaves-like-an-uninspected-one")
	for _, name := range []string{"t", "u", "v"} {
		a, errA := base.FetchTopicConfig(ctx, name)
		b, errB := control.FetchTopicConfig(ctx, name)
		vsym_Assert((errA == nil) == (errB == nil), "C40/inspected-store-behaves-like-an-uninspected-one")
		if errA == nil && errB == nil {
			vsym_Assert(a.Partitions == b.Partitions && a.ReplicationFactor == b.ReplicationFactor && a.RetentionMs == b.RetentionMs, "C40/inspected-store-behaves-like-an-uninspected-one")
		}
	}
	ga, _ := base.ListConsumerGroups(ctx)
	gb, _ := control.ListConsumerGroups(ctx)
	vsym_Assert(len(ga) == len(gb), "C40/inspected-store-behaves-like-an-uninspected-one")
}

func VsymC40_Twin() {
	base := metadata.NewInMemoryStore(metadata.ClusterMetadata{})
	mon := &vsymMonStore40{InMemoryStore: base}
	_ = mon.UpdateOffsets(context.Background(), "t", 0, vsym_Int64("o"))
	vsym_Assert(len(mon.mutations) == 0, "C40/twin")
}
