package sql

// C35 (crash-freedom half) — parsing any query text returns a query or an error, never a crash.
//
// The query is "select " + X×8 + " from t" + tail, where X is one symbolic two-byte UTF-8
// character (any code point U+0080..U+07FF) and tail is one of a few clause combinations. The
// real Parse runs with the real strings.ToLower / strings.Fields / clause slicing. Go's regexp
// engine is outside the executor: keywordIndex — `(?i)\bkw\b` for a literal keyword — is
// replaced by an explicit whole-word, ASCII-case-insensitive search (the regexp's meaning for a
// literal), and the value-extracting regexp helpers that do no slicing of their own
// (parseSelectColumn, parseTSFilters, parseKeywordValue, parseLimitToken, parseJoinExpr) by benign results.
// Natively the real regexps run.

func vsymIsWord(b byte) bool {
	return b == '_' || (b >= '0' && b <= '9') || (b >= 'a' && b <= 'z') || (b >= 'A' && b <= 'Z')
}

func vsymFold(b byte) byte {
	if b >= 'A' && b <= 'Z' {
		return b + 32
	}
	return b
}

func vsymKeywordIndex(s, kw string) int {
	for i := 0; i+len(kw) <= len(s); i++ {
		ok := true
		for j := 0; j < len(kw); j++ {
			if vsymFold(s[i+j]) != kw[j] {
				ok = false
				break
			}
		}
		if !ok {
			continue
		}
		// \b on both sides: the neighbour is not a word byte (non-ASCII bytes are not word bytes)
		if i > 0 && vsymIsWord(s[i-1]) == vsymIsWord(kw[0]) {
			continue
		}
		if i+len(kw) < len(s) && vsymIsWord(s[i+len(kw)]) == vsymIsWord(kw[len(kw)-1]) {
			continue
		}
		return i
	}
	return -1
}

func vsymInstallRegexpStubs() {
	if !vsym_Symbolic() {
		return
	}
	pkg := "github.com/kafscale/platform/addons/processors/sql-processor/internal/sql."
	vsym_Override(pkg+"keywordIndex", vsymKeywordIndex)
	vsym_Override(pkg+"parseSelectColumn", func(raw string) (SelectColumn, error) {
		return SelectColumn{Kind: SelectColumnField, Raw: raw}, nil
	})
	vsym_Override(pkg+"parseTSFilters", func(raw string) (*int64, *int64, error) { return nil, nil, nil })
	vsym_Override(pkg+"parseKeywordValue", func(lower, keyword string) string { return "" })
	vsym_Override(pkg+"parseLimitToken", func(lower string) string { return "" })
	vsym_Override(pkg+"parseJoinExpr", func(raw, topic, alias, joinTopic, joinAlias string) (JoinExpr, error) {
		return JoinExpr{Kind: JoinExprKey, Side: "left"}, nil
	})
}

var vsymTails = []string{"", " group by k", " order by k desc", " group by k order by k limit 5", " join u on _key = _key"}

func VsymC35_NoCrash() {
	vsymInstallRegexpStubs()
	b0, b1 := vsym_Uint8("lead"), vsym_Uint8("cont")
	// one well-formed two-byte character
	vsym_Assume(vsym_And(vsym_And(b0 >= 0xC2, b0 <= 0xDF), vsym_And(b1 >= 0x80, b1 <= 0xBF)))
	reps := vsym_Param("reps")
	x := make([]byte, 0, 2*reps)
	for i := 0; i < reps; i++ {
		x = append(x, b0, b1)
	}
	q := "select " + string(x) + " from t" + vsymTails[vsym_Param("tail")]
	_, err := Parse(q)
	if err == nil {
		vsym_Reach("parsed")
	}
}

// plain-ASCII queries with symbolic letter case of the keywords: same result as all-lower-case
func VsymC35_KeywordCase() {
	vsymInstallRegexpStubs()
	words := []string{"select", "k", "from", "t", "group", "by", "k", "order", "by", "k", "desc"}
	kw := map[int]bool{0: true, 2: true, 4: true, 5: true, 7: true, 8: true, 10: true}
	var mixed, lower []byte
	for wi, w := range words {
		if wi > 0 {
			mixed, lower = append(mixed, ' '), append(lower, ' ')
		}
		for i := 0; i < len(w); i++ {
			c := w[i]
			lower = append(lower, c)
			if kw[wi] && i == 0 && vsym_Bool("upper") {
				c -= 32
			}
			mixed = append(mixed, c)
		}
	}
	a, errA := Parse(string(mixed))
	b, errB := Parse(string(lower))
	vsym_Reach("compared")
	vsym_Assert((errA == nil) == (errB == nil), "C35/keyword-case-does-not-change-acceptance")
	vsym_Assert(a.Type == b.Type && a.Topic == b.Topic && a.OrderBy == b.OrderBy && a.OrderDesc == b.OrderDesc && len(a.GroupBy) == len(b.GroupBy) && len(a.Select) == len(b.Select), "C35/keyword-case-does-not-change-the-query")
}

func VsymC35_Twin() {
	vsymInstallRegexpStubs()
	_, err := Parse("select k from t")
	vsym_Assert(err != nil || vsym_Bool("z"), "C35/twin")
}
