package sql

import "reflect"

// C35 (crash-freedom half) — parsing any query text returns a query or an error, never a crash.
//
// The query is "select " + X×8 + " from t" + tail, where X is one symbolic two-byte UTF-8
// character (any code point U+0080..U+07FF) and tail is one of a few clause combinations. The
// real Parse runs with the real strings.ToLower / strings.Fields / clause slicing. Go's regexp
// engine is outside the executor: keywordIndex — `(?i)\bkw\b` for a literal keyword — is
// replaced by an explicit whole-word, ASCII-case-insensitive search (the regexp's meaning for a
// literal), and the value-extracting regexp helpers that do no slicing of their own
// (parseSelectColumn, parseTSFilters, parseKeywordValue, parseLimitToken, parseJoinExpr) by benign results.
// Natively the real regexps run.

func vsymIsWord(b byte) bool {
	return b == '_' || (b >= '0' && b <= '9') || (b >= 'a' && b <= 'z') || (b >= 'A' && b <= 'Z')
}

func vsymFold(b byte) byte {
	if b >= 'A' && b <= 'Z' {
		return b + 32
	}
	return b
}

func vsymKeywordIndex(s, kw string) int {
	for i := 0; i+len(kw) <= len(s); i++ {
		ok := true
		for j := 0; j < len(kw); j++ {
			if vsymFold(s[i+j]) != kw[j] {
				ok = false
				break
			}
		}
		if !ok {
			continue
		}
		// \b on both sides: the neighbour is not a word byte (non-ASCII bytes are not word bytes)
		if i > 0 && vsymIsWord(s[i-1]) == vsymIsWord(kw[0]) {
			continue
		}
		if i+len(kw) < len(s) && vsymIsWord(s[i+len(kw)]) == vsymIsWord(kw[len(kw)-1]) {
			continue
		}
		return i
	}
	return -1
}

func vsymInstallRegexpStubs() {
	if !vsym_Symbolic() {
		return
	}
	pkg := "github.com/kafscale/platform/addons/processors/sql-processor/internal/sql."
	vsym_Override(pkg+"keywordIndex", vsymKeywordIndex)
	vsym_Override(pkg+"parseSelectColumn", func(raw string) (SelectColumn, error) {
		return SelectColumn{Kind: SelectColumnField, Raw: raw}, nil
	})
	vsym_Override(pkg+"parseTSFilters", func(raw string) (*int64, *int64, error) { return nil, nil, nil })
	vsym_Override(pkg+"parseKeywordValue", func(lower, keyword string) string { return "" })
	vsym_Override(pkg+"parseLimitToken", func(lower string) string { return "" })
	vsym_Override(pkg+"parseJoinExpr", func(raw, topic, alias, joinTopic, joinAlias string) (JoinExpr, error) {
		return JoinExpr{Kind: JoinExprKey, Side: "left"}, nil
	})
}

// vsymC35Templates: '#' is where the symbolic characters go (a function, not a package variable:
// the package initialiser need not have run)
func vsymC35Templates() []string {
	return []string{
		"select # from t",
		"select # from t group by k",
		"select # from t order by k desc",
		"select # from t group by k order by k limit 5",
		"select # from t join u on _key = _key",
		"select k from t order by # desc",
		"select k from t order by # limit 5",
		"select k from t group by # order by k",
	}
}

func VsymC35_NoCrash() {
	vsymInstallRegexpStubs()
	b0, b1 := vsym_Uint8("lead"), vsym_Uint8("cont")
	// one well-formed two-byte character
	vsym_Assume(vsym_And(vsym_And(b0 >= 0xC2, b0 <= 0xDF), vsym_And(b1 >= 0x80, b1 <= 0xBF)))
	reps := vsym_Param("reps")
	x := make([]byte, 0, 2*reps)
	for i := 0; i < reps; i++ {
		x = append(x, b0, b1)
	}
	tmpl := vsymC35Templates()[vsym_Param("tail")]
	q := ""
	for i := 0; i < len(tmpl); i++ {
		if tmpl[i] == '#' {
			q += string(x)
		} else {
			q += tmpl[i : i+1]
		}
	}
	_, err := Parse(q)
	if err == nil {
		vsym_Reach("parsed")
	}
}

// plain-ASCII queries with symbolic letter case of the keywords: same result as all-lower-case.
// Keywords are marked with a leading '~' in the templates; each is written in lower case, in
// upper case, or capitalised (explorer's choice, at most two non-lower spellings per query).
func vsymC35Queries() []string {
	return []string{
		"~select k ~from t ~group ~by k ~order ~by k ~desc",
		"~select _offset ~from orders ~where _partition = 2 ~and _offset >= 10 ~limit 5",
		"~select * ~from orders ~scan ~full ~limit 10",
		"~select * ~from orders o ~join payments p ~on o._key = p._key ~within 10m ~last 1h",
		"~select * ~from orders ~order ~by _ts ~desc ~limit 10",
		"~select _partition, ~count(*) ~from orders ~group ~by _partition",
		"~explain ~select * ~from orders ~last 1h",
		"~show ~partitions ~from orders",
		"~show ~topics",
		"~describe orders",
		"~select * ~from orders ~tail 5",
	}
}

func VsymC35_KeywordCase() {
	// (the real regexps run here: every string is concrete once the case choices are made)
	tmpl := vsymC35Queries()[vsym_Param("query")]
	var mixed, lower []byte
	changed := 0
	for i := 0; i < len(tmpl); i++ {
		if tmpl[i] != '~' {
			mixed, lower = append(mixed, tmpl[i]), append(lower, tmpl[i])
			continue
		}
		style := 0
		if changed < 2 {
			style = vsym_Choose("spelling", 3)
		}
		if style != 0 {
			changed++
		}
		first := true
		for i+1 < len(tmpl) && tmpl[i+1] >= 'a' && tmpl[i+1] <= 'z' {
			i++
			c := tmpl[i]
			lower = append(lower, c)
			if style == 1 || (style == 2 && first) {
				c -= 32
			}
			first = false
			mixed = append(mixed, c)
		}
	}
	a, errA := Parse(string(mixed))
	b, errB := Parse(string(lower))
	vsym_Reach("compared")
	vsym_Assert(errB == nil, "C35/template-is-a-valid-query")
	vsym_Assert((errA == nil) == (errB == nil), "C35/keyword-case-does-not-change-acceptance")
	// Raw keeps the text as written (its case is the user's); everything else must agree
	for i := range a.Select {
		a.Select[i].Raw = ""
	}
	for i := range b.Select {
		b.Select[i].Raw = ""
	}
	if a.Explain != nil && b.Explain != nil {
		for i := range a.Explain.Select {
			a.Explain.Select[i].Raw = ""
		}
		for i := range b.Explain.Select {
			b.Explain.Select[i].Raw = ""
		}
	}
	vsym_Assert(reflect.DeepEqual(a, b), "C35/keyword-case-does-not-change-the-query")
}

// function names are keywords too: json_value / json_query / json_exists / count(...) in any
// letter case select the same column kind, path and source as in lower case. The real
// parseSelectColumn and its regexps run here (the strings are concrete once the case bits are).
func VsymC35_FunctionCase() {
	exprs := []string{"json_value(_value, '$.a')", "json_query(_value, '$.a')", "json_exists(_value, '$.a')", "count(*)", "max(json_value(_value, '$.n'))", "sum(_offset)"}
	expr := exprs[vsym_Param("expr")]
	mixed := []byte(expr)
	flips := 0
	for i := 0; i < len(mixed) && mixed[i] != '('; i++ {
		if mixed[i] >= 'a' && mixed[i] <= 'z' && flips < 3 && vsym_Bool("upper") {
			mixed[i] -= 32
			flips++
		}
	}
	a, errA := parseSelectColumn(string(mixed))
	b, errB := parseSelectColumn(expr)
	vsym_Reach("function-case-compared")
	vsym_Assert((errA == nil) == (errB == nil), "C35/keyword-case-does-not-change-acceptance")
	vsym_Assert(a.Kind == b.Kind && a.JSONPath == b.JSONPath && a.Source == b.Source && a.Column == b.Column && a.Alias == b.Alias, "C35/function-name-case-does-not-change-the-column")
	vsym_Assert(a.AggFunc == b.AggFunc && a.AggStar == b.AggStar && a.AggColumn == b.AggColumn && a.AggJSONPath == b.AggJSONPath, "C35/function-name-case-does-not-change-the-column")
}

func VsymC35_Twin() {
	vsymInstallRegexpStubs()
	_, err := Parse("select k from t")
	vsym_Assert(err != nil || vsym_Bool("z"), "C35/twin")
}
