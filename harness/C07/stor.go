package storage

import (
	"bytes"
	"encoding/binary"
	"hash/crc32"
	"time"

	"github.com/twmb/franz-go/pkg/kmsg"
)

// C07 (broker side) — BuildSegment writes a valid header, an end-offset footer and a CRC over the
// body; index entries point at batch starts in increasing offset order; the restore scanner
// (scanRecord) recovers each record's timestamp and offset deltas; the harness's reference
// encoder agrees with the standard codec (kmsg.Record.AppendTo).
func VsymC07_Segment() {
	nb := vsym_Param("batches")
	interval := vsym_Int32("interval")
	vsym_Assume(vsym_And(interval >= 0, interval <= 4))
	base := vsym_Int64("baseOffset")
	firstTs := vsym_Int64("firstTimestamp")
	vsym_Assume(vsym_And(vsym_And(base >= 0, base < 1<<60), vsym_And(firstTs >= 0, firstTs < 1<<60)))
	var batches []RecordBatch
	var starts []int
	var body []byte
	next := base
	for b := 0; b < nb; b++ {
		recs := []vsymRec{vsymGenRecord(b == 0 && nb == 1)}
		recs[0].offDelta = 0
		if nb > 1 {
			// multi-batch segments are about layout and index, not varint widths
			vsym_Assume(vsym_And(recs[0].tsDelta >= -64, recs[0].tsDelta <= 63))
			// multi-batch segments: a second record with a small symbolic delta (one-byte varint)
			d2 := vsym_Int64("tsDelta2")
			vsym_Assume(vsym_And(d2 >= -64, d2 <= 63))
			recs = append(recs, vsymRec{tsDelta: d2, offDelta: 1, value: vsym_Bytes("v2", 1)})
		}
		raw := vsymEncodeBatch(0, firstTs, recs)
		// the standard codec writes the same record bytes
		var std []byte
		for _, r := range recs {
			kr := kmsg.Record{TimestampDelta64: r.tsDelta, OffsetDelta: r.offDelta, Key: r.key, Value: r.value}
			for _, h := range r.headers {
				kr.Headers = append(kr.Headers, kmsg.Header{Key: h.key, Value: h.val})
			}
			enc := vsymEncodeRecord(r)
			for p := 1; p <= 3; p++ {
				if vsymVarlongLen(int64(len(enc)-p)) == p {
					kr.Length = int32(len(enc) - p)
				}
			}
			std = kr.AppendTo(std)
		}
		vsym_Assert(vsym_BytesEq(std, raw[61:]), "C07/reference-encoder-agrees-with-standard-codec")
		rb, err := NewRecordBatchFromBytes(raw)
		vsym_Assert(err == nil, "C07/batch-accepted")
		PatchRecordBatchBaseOffset(&rb, next)
		starts = append(starts, 32+len(body))
		body = append(body, rb.Bytes...)
		batches = append(batches, rb)
		next += int64(rb.LastOffsetDelta) + 1
		// restore scanner
		rd := bytes.NewReader(rb.Bytes[61:])
		for _, r := range recs {
			ts, od, err := scanRecord(rd)
			vsym_Assert(err == nil, "C07/restore-scanner-accepts")
			vsym_Assert(vsym_And(ts == r.tsDelta, od == r.offDelta), "C07/restore-scanner-recovers-deltas")
		}
	}
	art, err := BuildSegment(SegmentWriterConfig{IndexIntervalMessages: interval}, batches, time.Unix(1700000000, 0))
	vsym_Assert(err == nil, "C07/segment-built")
	vsym_Reach("built")
	seg := art.SegmentBytes
	vsym_Assert(len(seg) == 32+len(body)+16, "C07/segment-layout")
	vsym_Assert(string(seg[:4]) == "KAFS" && binary.BigEndian.Uint16(seg[4:6]) == 1, "C07/header-magic-and-version")
	vsym_Assert(int64(binary.BigEndian.Uint64(seg[8:16])) == base, "C07/header-base-offset")
	vsym_Assert(vsym_BytesEq(seg[32:32+len(body)], body), "C07/body-is-the-batches-back-to-back")
	foot := seg[len(seg)-16:]
	vsym_Assert(binary.BigEndian.Uint32(foot[0:4]) == crc32.Checksum(body, crcTable), "C07/footer-crc-over-body")
	vsym_Assert(int64(binary.BigEndian.Uint64(foot[4:12])) == next-1 && string(foot[12:]) == "END!", "C07/footer-end-offset")
	vsym_Assert(art.BaseOffset == base && art.LastOffset == next-1, "C07/artifact-range")
	last, err := parseSegmentFooter(foot)
	vsym_Assert(err == nil && last == next-1, "C07/footer-parses")
	entries, err := ParseIndex(art.IndexBytes)
	vsym_Assert(err == nil && len(entries) >= 1 && len(entries) == len(art.RelativeIndex), "C07/index-parses")
	prev := int64(-1)
	for i, e := range entries {
		vsym_Assert(e.Offset == art.RelativeIndex[i].Offset && e.Position == art.RelativeIndex[i].Position, "C07/index-roundtrip")
		vsym_Assert(e.Offset > prev, "C07/index-offsets-increase")
		prev = e.Offset
		isStart := false
		for bi, s := range starts {
			if int(e.Position) == s {
				isStart = true
				vsym_Assert(e.Offset == batches[bi].BaseOffset, "C07/index-entry-offset-is-batch-base")
			}
		}
		vsym_Assert(isStart, "C07/index-entry-points-at-a-batch-start")
	}
	vsym_Assert(entries[0].Position == 32, "C07/first-batch-indexed")
}

func vsymVarlongLen(v int64) int { return len(vsymPutVarlong(nil, v)) }

func VsymC07_SegmentTwin() {
	rb, _ := NewRecordBatchFromBytes(vsymEncodeBatch(0, 0, []vsymRec{{value: vsym_Bytes("v", 1)}}))
	art, err := BuildSegment(SegmentWriterConfig{}, []RecordBatch{rb}, time.Unix(1, 0))
	vsym_Assert(err != nil || len(art.SegmentBytes) != 32+len(rb.Bytes)+16, "C07/twin")
}
