package decoder

// C07 (processor decoders) — the decoder recovers exactly the records that were written:
// offsets, timestamps, keys, values and headers (null and empty kept apart).
func VsymC07_Decode() {
	nrec := vsym_Param("records")
	base := vsym_Int64("baseOffset")
	firstTs := vsym_Int64("firstTimestamp")
	vsym_Assume(vsym_And(vsym_And(base >= 0, base < 1<<60), vsym_And(firstTs >= 0, firstTs < 1<<60)))
	var recs []vsymRec
	for i := 0; i < nrec; i++ {
		recs = append(recs, vsymGenRecord(nrec == 1 && vsym_Param("batches") == 1))
	}
	body := vsymEncodeBatch(base, firstTs, recs)
	if vsym_Param("batches") == 2 {
		body = append(body, vsymEncodeBatch(base+1<<20, firstTs, []vsymRec{{tsDelta: 5, offDelta: 0, value: []byte{7}}})...)
	}
	seg := vsymWrapSegment(body, base, base)
	got, err := decodeSegment(seg, "t", 3)
	vsym_Assert(err == nil, "C07/well-formed-segment-decodes")
	want := len(recs)
	if vsym_Param("batches") == 2 {
		want++
	}
	vsym_Assert(len(got) == want, "C07/every-record-decoded-once")
	vsym_Reach("decoded")
	for i, r := range recs {
		g := got[i]
		vsym_Assert(g.Offset == base+int64(r.offDelta), "C07/offset-recovered")
		vsym_Assert(g.Timestamp == firstTs+r.tsDelta, "C07/timestamp-recovered")
		vsym_Assert(vsymSameBytes(g.Key, r.key), "C07/key-recovered")
		vsym_Assert(vsymSameBytes(g.Value, r.value), "C07/value-recovered")
		vsym_Assert(len(g.Headers) == len(r.headers), "C07/headers-recovered")
		for j, h := range r.headers {
			vsym_Assert(vsym_StrEq(g.Headers[j].Key, h.key) && vsymSameBytes(g.Headers[j].Value, h.val), "C07/headers-recovered")
		}
		vsym_Assert(g.Topic == "t" && g.Partition == 3, "C07/topic-partition-stamped")
	}
}

func VsymC07_DecodeTwin() {
	seg := vsymWrapSegment(vsymEncodeBatch(0, 0, []vsymRec{{tsDelta: vsym_Int64("d"), value: []byte{1}}}), 0, 0)
	got, err := decodeSegment(seg, "t", 0)
	vsym_Assert(err != nil || len(got) != 1 || got[0].Timestamp != 9, "C07/twin")
}
