package broker

import (
	"context"
	"errors"
	"io"
	"net"
	"time"

	"github.com/twmb/franz-go/pkg/kmsg"

	"github.com/KafScale/platform/pkg/protocol"
)

// C10 (connection level) — the broker's connection loop survives any frame: one frame of n
// arbitrary bytes (well-formed header or not, decodable body or not, known api key or not)
// followed by end of stream goes through the real Server.handleConnection without a panic;
// when the handler is reached the header it is given is the one the frame carried.

type vsymC10Conn struct {
	data []byte
	pos  int
	out  []byte
}

func (c *vsymC10Conn) Read(p []byte) (int, error) {
	if c.pos >= len(c.data) {
		return 0, io.EOF
	}
	n := copy(p, c.data[c.pos:])
	c.pos += n
	return n, nil
}
func (c *vsymC10Conn) Write(p []byte) (int, error)        { c.out = append(c.out, p...); return len(p), nil }
func (c *vsymC10Conn) Close() error                       { return nil }
func (c *vsymC10Conn) LocalAddr() net.Addr                { return nil }
func (c *vsymC10Conn) RemoteAddr() net.Addr               { return nil }
func (c *vsymC10Conn) SetDeadline(t time.Time) error      { return nil }
func (c *vsymC10Conn) SetReadDeadline(t time.Time) error  { return nil }
func (c *vsymC10Conn) SetWriteDeadline(t time.Time) error { return nil }

type vsymC10Handler struct {
	fail  bool
	calls int
	corr  int32
}

func (h *vsymC10Handler) Handle(ctx context.Context, header *protocol.RequestHeader, req kmsg.Request) ([]byte, error) {
	h.calls++
	h.corr = header.CorrelationID
	if h.fail {
		return nil, errors.New("vsym: handler failure")
	}
	return []byte{0, 0, 0, 1}, nil
}

func VsymC10_Connection() {
	// header: api key from {Metadata, ApiVersions, an unknown key}, version 0, symbolic correlation
	// id, null client id; body: empty / cut inside the array length / an array announcing one
	// topic whose name is cut short / a complete one-topic Metadata body (solver's choice).
	// (Arbitrary body bytes are C10's protocol-level harnesses: kmsg decoding of a symbolic
	// array length does not finish at this level.)
	key := []uint16{3, 18, 9999}[vsym_Choose("api-key", 3)]
	corr := vsym_Int32("correlation")
	payload := []byte{byte(key >> 8), byte(key), 0, 0, byte(corr >> 24), byte(corr >> 16), byte(corr >> 8), byte(corr), 0xff, 0xff}
	switch vsym_Choose("body", 4) {
	case 1:
		payload = append(payload, 0, 0)
	case 2:
		payload = append(payload, 0, 0, 0, 1, 0, 5, 'a')
	case 3:
		payload = append(payload, 0, 0, 0, 1, 0, 1, 'a')
	}
	if vsym_Bool("header-cut-short") {
		payload = payload[:vsym_Choose("header-bytes", 10)]
	}
	frame := append([]byte{0, 0, 0, byte(len(payload))}, payload...)
	h := &vsymC10Handler{fail: vsym_Bool("handler-fails")}
	s := &Server{Handler: h}
	conn := &vsymC10Conn{data: frame}
	s.handleConnection(conn)
	vsym_Reach("connection-closed")
	if h.calls > 0 {
		vsym_Reach("handled")
		vsym_Assert(h.corr == corr, "C10/handler-sees-the-frame's-correlation-id")
	}
}
