package protocol

import (
	"io"

	"github.com/twmb/franz-go/pkg/kmsg"
)

func kmsgRequestForKey(k int16) kmsg.Request { return kmsg.RequestForKey(k) }

func vsymEOF() error { return io.EOF }
