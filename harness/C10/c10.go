package protocol

// C10 — Kafka request decoding never crashes and round-trips.

// VsymC10_HeaderNoPanic: ParseRequestHeader on an arbitrary frame of n bytes whose api key is
// fixed per instance. Any feasible panic is a violation (spec: panic_violation).
func VsymC10_HeaderNoPanic() {
	n := vsym_Param("n")
	key := vsym_Param("key")
	b := vsym_Bytes("frame", n)
	if n >= 2 {
		b[0], b[1] = byte(key>>8), byte(key)
	}
	h, body, err := ParseRequestHeader(b)
	if err == nil {
		vsym_Reach("ok")
		vsym_Assert(h != nil, "C10/header-non-nil")
		vsym_Assert(len(body) <= n, "C10/body-is-suffix")
	} else {
		vsym_Reach("err")
	}
}

// VsymC10_HeaderRoundTrip: a header written per KIP-482 parses back to the same fields and
// the body is exactly the bytes after the header.
func VsymC10_HeaderRoundTrip() {
	key := int16(vsym_Param("key"))
	cl := vsym_Param("clientlen") // -1 = null client id
	nb := vsym_Param("bodylen")
	version := vsym_Int16("version")
	corr := vsym_Int32("corr")
	vsym_Assume(version >= 0 && version <= 20)
	w := newByteWriter(64)
	w.Int16(key)
	w.Int16(version)
	w.Int32(corr)
	var cid *string
	if cl >= 0 {
		s := vsym_String("client", cl)
		cid = &s
	}
	w.NullableString(cid)
	req := kmsgRequestForKey(key)
	flexible := false
	if req != nil {
		req.SetVersion(version)
		flexible = req.IsFlexible()
	}
	if flexible {
		w.WriteTaggedFields(0)
	}
	body := vsym_Bytes("body", nb)
	hdrLen := len(w.Bytes())
	w.write(body)
	h, rest, err := ParseRequestHeader(w.Bytes())
	vsym_Assert(err == nil, "C10/roundtrip-no-error")
	vsym_Reach("parsed")
	vsym_Assert(h.APIKey == key && h.APIVersion == version && h.CorrelationID == corr, "C10/roundtrip-fields")
	if cid == nil {
		vsym_Assert(h.ClientID == nil, "C10/roundtrip-null-client")
	} else {
		vsym_Assert(h.ClientID != nil && vsym_StrEq(*h.ClientID, *cid), "C10/roundtrip-client")
	}
	vsym_Assert(len(rest) == nb && hdrLen+nb == len(w.Bytes()), "C10/roundtrip-body-len")
	vsym_Assert(vsym_BytesEq(rest, body), "C10/roundtrip-body")
}

// VsymC10_Twin is the reachability witness: its final assertion must be violated.
func VsymC10_Twin() {
	b := vsym_Bytes("frame", 12)
	b[0], b[1] = 0, 3
	_, _, err := ParseRequestHeader(b)
	if err == nil {
		vsym_Assert(false, "C10/twin")
	}
}

// VsymC10_BigTagSize: a flexible-version header with one tagged field whose size is an
// arbitrary 10-byte uvarint (covers sizes >= 2^63 that become negative ints).
func VsymC10_BigTagSize() {
	key := vsym_Param("key")
	b := vsym_Bytes("frame", 24)
	b[0], b[1] = byte(key>>8), byte(key)
	b[2], b[3] = 0, byte(vsym_Param("version"))
	b[8], b[9] = 0xff, 0xff // null client id
	b[10] = 1              // one tagged field
	vsym_Assume(b[11] < 0x80)
	h, body, err := ParseRequestHeader(b)
	if err == nil {
		vsym_Reach("ok")
		vsym_Assert(h != nil && len(body) <= 24, "C10/bigtag-body-suffix")
	} else {
		vsym_Reach("err")
	}
}

// vsymChunkReader delivers data in chunks of at most `chunk` bytes, then io.EOF.
type vsymChunkReader struct {
	data  []byte
	pos   int
	chunk int
}

func (r *vsymChunkReader) Read(p []byte) (int, error) {
	if r.pos >= len(r.data) {
		return 0, vsymEOF()
	}
	n := len(p)
	if n > r.chunk {
		n = r.chunk
	}
	if n > len(r.data)-r.pos {
		n = len(r.data) - r.pos
	}
	copy(p, r.data[r.pos:r.pos+n])
	r.pos += n
	return n, nil
}

// VsymC10_ReadFrame: ReadFrame over a connection that delivers `avail` arbitrary bytes (in
// chunks) and then closes. A frame is returned iff the size prefix and the whole payload
// arrived; its payload is exactly the bytes received, and exactly 4+length bytes are consumed
// (the next frame starts where this one ended). Frame lengths above 8 are outside the bound.
func VsymC10_ReadFrame() {
	avail := vsym_Param("avail")
	chunk := vsym_Param("chunk")
	data := vsym_Bytes("stream", avail)
	var length int32 = -1
	if avail >= 4 {
		length = int32(uint32(data[0])<<24 | uint32(data[1])<<16 | uint32(data[2])<<8 | uint32(data[3]))
		vsym_Assume(length <= 8)
	}
	r := &vsymChunkReader{data: data, chunk: chunk}
	f, err := ReadFrame(r)
	complete := avail >= 4 && length >= 0 && int(length) <= avail-4
	if err == nil {
		vsym_Reach("frame")
		vsym_Assert(complete, "C10/frame-only-when-fully-received")
		vsym_Assert(f != nil && f.Length == length && len(f.Payload) == int(length), "C10/frame-length")
		vsym_Assert(vsym_BytesEq(f.Payload, data[4:4+int(length)]), "C10/frame-payload-is-bytes-received")
		vsym_Assert(r.pos == 4+int(length), "C10/frame-consumes-exactly-its-bytes")
	} else {
		vsym_Reach("error")
		vsym_Assert(!complete, "C10/complete-frame-accepted")
	}
}
