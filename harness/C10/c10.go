package protocol

// C10 — Kafka request decoding never crashes and round-trips.

// VsymC10_HeaderNoPanic: ParseRequestHeader on an arbitrary frame of n bytes whose api key is
// fixed per instance. Any feasible panic is a violation (spec: panic_violation).
func VsymC10_HeaderNoPanic() {
	n := vsym_Param("n")
	key := vsym_Param("key")
	b := vsym_Bytes("frame", n)
	if n >= 2 {
		b[0], b[1] = byte(key>>8), byte(key)
	}
	h, body, err := ParseRequestHeader(b)
	if err == nil {
		vsym_Reach("ok")
		vsym_Assert(h != nil, "C10/header-non-nil")
		vsym_Assert(len(body) <= n, "C10/body-is-suffix")
	} else {
		vsym_Reach("err")
	}
}

// VsymC10_HeaderRoundTrip: a header written per KIP-482 parses back to the same fields and
// the body is exactly the bytes after the header.
func VsymC10_HeaderRoundTrip() {
	key := int16(vsym_Param("key"))
	cl := vsym_Param("clientlen") // -1 = null client id
	nb := vsym_Param("bodylen")
	version := vsym_Int16("version")
	corr := vsym_Int32("corr")
	vsym_Assume(version >= 0 && version <= 20)
	w := newByteWriter(64)
	w.Int16(key)
	w.Int16(version)
	w.Int32(corr)
	var cid *string
	if cl >= 0 {
		s := vsym_String("client", cl)
		cid = &s
	}
	w.NullableString(cid)
	req := kmsgRequestForKey(key)
	flexible := false
	if req != nil {
		req.SetVersion(version)
		flexible = req.IsFlexible()
	}
	if flexible {
		w.WriteTaggedFields(0)
	}
	body := vsym_Bytes("body", nb)
	hdrLen := len(w.Bytes())
	w.write(body)
	h, rest, err := ParseRequestHeader(w.Bytes())
	vsym_Assert(err == nil, "C10/roundtrip-no-error")
	vsym_Reach("parsed")
	vsym_Assert(h.APIKey == key && h.APIVersion == version && h.CorrelationID == corr, "C10/roundtrip-fields")
	if cid == nil {
		vsym_Assert(h.ClientID == nil, "C10/roundtrip-null-client")
	} else {
		vsym_Assert(h.ClientID != nil && vsym_StrEq(*h.ClientID, *cid), "C10/roundtrip-client")
	}
	vsym_Assert(len(rest) == nb && hdrLen+nb == len(w.Bytes()), "C10/roundtrip-body-len")
	vsym_Assert(vsym_BytesEq(rest, body), "C10/roundtrip-body")
}

// VsymC10_Twin is the reachability witness: its final assertion must be violated.
func VsymC10_Twin() {
	b := vsym_Bytes("frame", 12)
	b[0], b[1] = 0, 3
	_, _, err := ParseRequestHeader(b)
	if err == nil {
		vsym_Assert(false, "C10/twin")
	}
}

// VsymC10_BigTagSize: a flexible-version header with one tagged field whose size is an
// arbitrary 10-byte uvarint (covers sizes >= 2^63 that become negative ints).
func VsymC10_BigTagSize() {
	key := vsym_Param("key")
	b := vsym_Bytes("frame", 24)
	b[0], b[1] = byte(key>>8), byte(key)
	b[2], b[3] = 0, byte(vsym_Param("version"))
	b[8], b[9] = 0xff, 0xff // null client id
	b[10] = 1              // one tagged field
	vsym_Assume(b[11] < 0x80)
	h, body, err := ParseRequestHeader(b)
	if err == nil {
		vsym_Reach("ok")
		vsym_Assert(h != nil && len(body) <= 24, "C10/bigtag-body-suffix")
	} else {
		vsym_Reach("err")
	}
}
