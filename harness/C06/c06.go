package storage

import "context"

// C06 — a broker restart after any crash point loses no acknowledged record.
//
// One producer issues up to P produces through handleProduce's rule (append, flush, ack iff both
// succeed); the onFlush callback updates the mirrored metadata store (next_offset = last+1).
// Before every environment write (S3 segment put, S3 index put, store update) the solver may
// crash the broker: from then on nothing is written, acknowledged or published. One upload may
// also simply fail. Then a new broker opens the partition the way getPartitionLog does (start
// offset from the store, RestoreFromS3, store synced forward from S3) and
//   (a) reads every batch acknowledged before the crash at its offset, byte for byte,
//   (b) gives a new produce a base offset above every acknowledged offset and not below the
//       published watermark,
//   (c) can open the partition at all.
func VsymC06_CrashRestart() {
	ctx := context.Background()
	s3 := newVsymS3()
	s3.faulty = true
	s3.budget = 1
	crashed := false
	var storeNext int64
	var acks []vsymAck
	mayCrash := func() {
		if !crashed && vsym_Bool("crash-here") {
			crashed = true
			s3.crashed = true
		}
	}
	s3.onCall = func(op, key string) {
		if op == "upload-segment" || op == "upload-index" {
			mayCrash()
		}
	}
	onFlush := func(ctx context.Context, a *SegmentArtifact) {
		mayCrash()
		if !crashed {
			storeNext = a.LastOffset + 1
		}
	}
	l := vsymNewLog(s3, 0, PartitionLogConfig{}, onFlush)
	for i := 0; i < vsym_Param("produces") && !crashed; i++ {
		count := []int32{1, 2}[vsym_Choose("count", 2)]
		ack, ok := vsymProduce(ctx, l, vsymBatch(count, vsym_Bytes("payload", 1)))
		if ok && !crashed {
			acks = append(acks, ack)
		}
	}
	if crashed {
		vsym_Reach("crashed")
	}
	// ---- restart (mirror of getPartitionLog) ----
	s3.crashed, s3.faulty, s3.onCall = false, false, nil
	l2 := vsymNewLog(s3, storeNext, PartitionLogConfig{}, nil)
	last, err := l2.RestoreFromS3(ctx)
	vsym_Assert(err == nil, "C06/partition-opens-after-restart")
	if last >= storeNext {
		storeNext = last + 1
	}
	vsym_Reach("restarted")
	for _, a := range acks {
		got, err := l2.Read(ctx, a.base, int32(len(a.bytes)))
		vsym_Assert(err == nil && vsym_BytesEq(got, a.bytes), "C06/acknowledged-batch-readable-at-its-offset-after-restart")
	}
	fresh, ok := vsymProduce(ctx, l2, vsymBatch(1, vsym_Bytes("payload", 1)))
	vsym_Assert(ok, "C06/produce-works-after-restart")
	for _, a := range acks {
		vsym_Assert(fresh.base > a.last, "C06/new-append-does-not-reuse-acknowledged-offset")
	}
	vsym_Assert(fresh.base >= storeNext-1 || fresh.base >= storeNext, "C06/new-append-not-below-published-watermark")
}

func VsymC06_Twin() {
	s3 := newVsymS3()
	l := vsymNewLog(s3, 0, PartitionLogConfig{}, nil)
	_, ok := vsymProduce(context.Background(), l, vsymBatch(1, vsym_Bytes("payload", 1)))
	l2 := vsymNewLog(s3, 0, PartitionLogConfig{}, nil)
	last, _ := l2.RestoreFromS3(context.Background())
	vsym_Assert(!ok || last != 0, "C06/twin")
}
