package main

import (
	"context"
	"encoding/binary"
	"io"
	"log/slog"

	"github.com/twmb/franz-go/pkg/kmsg"

	"github.com/KafScale/platform/pkg/protocol"
)

// C06 (broker level) — the real handler.getPartitionLog opens the partition from S3 and the
// metadata store after a crash that lost metadata-store updates.
//
// Broker 1 acknowledges n single- or two-record produces to t0/0; from a solver-chosen produce on
// the store's UpdateOffsets calls are lost (the flush callback only logs the error — the same
// state as a crash between the in-memory commit and the store update). A new handler over the
// same S3 and store then serves a fetch of every acknowledged batch at its offset, reports a log
// end past the last acknowledged record, and assigns a fresh produce the next unused offset.

type vsymC06LossyStore struct {
	*vsymMonStore
	lose bool
}

func (s *vsymC06LossyStore) UpdateOffsets(ctx context.Context, topic string, partition int32, lastOffset int64) error {
	if s.lose {
		return context.DeadlineExceeded
	}
	return s.vsymMonStore.UpdateOffsets(ctx, topic, partition, lastOffset)
}

func vsymC06ProduceBase(b *vsymBroker, count int32, payload []byte) (int64, int16) {
	req := vsymProduceReq(-1, []vsymTP{{"t0", 0}}, payload)
	raw := req.Topics[0].Partitions[0].Records
	binary.BigEndian.PutUint32(raw[23:27], uint32(count-1))
	binary.BigEndian.PutUint32(raw[57:61], uint32(count))
	resp := b.vsymCall("p", req).(*kmsg.ProduceResponse)
	return resp.Topics[0].Partitions[0].BaseOffset, resp.Topics[0].Partitions[0].ErrorCode
}

func VsymC06_BrokerRestart() {
	n := vsym_Param("produces")
	b, mon := vsymNewMonBroker()
	lossy := &vsymC06LossyStore{vsymMonStore: mon}
	info := protocol.MetadataBroker{NodeID: 1, Host: "b1", Port: 9092}
	b.h = newHandler(lossy, b.s3, info, slog.New(slog.NewTextHandler(io.Discard, nil)))
	type ack struct {
		base  int64
		count int32
	}
	var acks []ack
	next := int64(0)
	for i := 0; i < n; i++ {
		if !lossy.lose && vsym_Bool("store-updates-lost-from-here") {
			lossy.lose = true
		}
		count := int32(1 + vsym_Choose("records", 2))
		base, code := vsymC06ProduceBase(b, count, []byte{byte(10 + i)})
		vsym_Assert(code == 0 && base == next, "C06/setup-produce-acknowledged")
		acks = append(acks, ack{base, count})
		next = base + int64(count)
	}
	// crash + restart: a new handler over the same S3 objects and metadata store
	lossy.lose = false
	b2 := &vsymBroker{s3: b.s3, store: b.store}
	b2.h = newHandler(lossy, b.s3, info, slog.New(slog.NewTextHandler(io.Discard, nil)))
	vsym_Reach("restarted")
	for i, a := range acks {
		got := b2.vsymFetch(vsymFetchReq([]vsymTP{{"t0", 0}}, a.base))[vsymTP{"t0", 0}]
		vsym_Assert(got.code == 0, "C06/acknowledged-record-fetchable-after-restart")
		vsym_Assert(len(got.data) >= 62 && int64(binary.BigEndian.Uint64(got.data[0:8])) == a.base && got.data[61] == byte(10+i), "C06/acknowledged-record-read-at-its-original-offset")
		vsym_Assert(got.hw >= a.base+int64(a.count), "C06/high-watermark-covers-acknowledged-records-after-restart")
	}
	lo := b2.vsymCall("c", vsymRequestFor(2, "t0", "", 0)).(*kmsg.ListOffsetsResponse)
	vsym_Assert(lo.Topics[0].Partitions[0].ErrorCode == 0 && lo.Topics[0].Partitions[0].Offset >= next, "C06/log-end-offset-covers-acknowledged-records-after-restart")
	base, code := vsymC06ProduceBase(b2, 1, []byte{99})
	vsym_Assert(code == 0, "C06/produce-after-restart-acknowledged")
	vsym_Assert(base == next, "C06/no-acknowledged-offset-reused-and-no-gap-after-restart")
}
