package console

import (
	"errors"
	"encoding/json"
	"io"
	"net/http"
	"strings"
	"time"
)

// C38 — console API requires a live session; logins are rate limited.
//
// Virtual time as in C43: under the executor time.Now is pinned, natively the microseconds
// that pass are negligible against the second-granular steps used here; time advances only
// through age(d), which moves every instant the code under test has stored d into the past.
// All steps are whole seconds plus 500 ms so that no comparison sits exactly on a boundary
// where the native clock drift could flip it.

const vsymHalf = int64(500 * time.Millisecond)

func vsymPinClock() {
	if vsym_Symbolic() {
		vsym_Override("time.Now", func() time.Time { return time.Unix(1700000000, 0) })
	}
}

// ---------------------------------------------------------------------------------------
// S: loginRateLimiter.Allow — at most `limit` admitted attempts per key in any sliding window.

func VsymC38_RateLimit() {
	vsymPinClock()
	limit := vsym_Param("limit")
	window := vsym_Int64("window")
	vsym_Assume(window >= int64(time.Second) && window <= int64(24*time.Hour))
	l := newLoginRateLimiter(limit, time.Duration(window))
	keys := []string{"10.0.0.1", "10.0.0.2"}
	admitted := [][]int64{nil, nil} // ghost: age (ns) of every admitted attempt, per key
	k := limit + 2
	for i := 0; i < k; i++ {
		if i > 0 {
			d := vsym_Int64("dt")
			vsym_Assume(d >= 0 && d <= int64(48*time.Hour))
			for _, hits := range l.hits {
				for j := range hits {
					hits[j] = hits[j].Add(-time.Duration(d))
				}
			}
			for ki := range admitted {
				for j := range admitted[ki] {
					admitted[ki][j] += d
					// keep clear of the boundary band the native clock drift (microseconds) could cross
					a := admitted[ki][j]
					vsym_Assume(vsym_Or(a < window-int64(time.Millisecond), a >= window))
				}
			}
		}
		ki := 0
		if vsym_Bool("otherKey") {
			ki = 1
		}
		if l.Allow(keys[ki]) {
			vsym_Reach("admitted")
			admitted[ki] = append(admitted[ki], 0)
		} else {
			vsym_Reach("rejected")
		}
		// the window (now-window, now] ending at this attempt holds the attempts younger than window
		for kj := range admitted {
			var cnt int64
			for _, a := range admitted[kj] {
				cnt += vsym_Ite64(a < window, 1, 0)
			}
			vsym_Assert(cnt <= int64(limit), "C38/at-most-limit-logins-per-window")
		}
	}
}

// ---------------------------------------------------------------------------------------
// H: requireAuth / hasValidSession / handleLogin / handleLogout.

type vsymRW struct {
	hdr    http.Header
	status int
	body   []byte
}

func (w *vsymRW) Header() http.Header { return w.hdr }
func (w *vsymRW) WriteHeader(s int) {
	if w.status == 0 {
		w.status = s
	}
}
func (w *vsymRW) Write(b []byte) (int, error) {
	if w.status == 0 {
		w.status = 200
	}
	w.body = append(w.body, b...)
	return len(b), nil
}
func newVsymRW() *vsymRW { return &vsymRW{hdr: http.Header{}} }

var vsymErrNoCookie = errors.New("vsym: named cookie not present")

type vsymAuthWorld struct {
	a        *authManager
	issued   []string          // tokens handed out by successful logins, in order
	ttlLeft  map[string]int64  // ghost: remaining life (ns) of each live session
	curUser  string
	curPass  string
	tokenSeq int
}

func vsymReq(method, cookie, body string) *http.Request {
	r := &http.Request{Method: method, Header: http.Header{}, RemoteAddr: "10.0.0.1:999"}
	if cookie != "" {
		r.Header.Set("Cookie", sessionCookieName+"="+cookie)
	}
	r.Body = io.NopCloser(strings.NewReader(body))
	return r
}

func (w *vsymAuthWorld) install() {
	if !vsym_Symbolic() {
		return
	}
	// reflection-based JSON is outside the executor: the decoder hands over the credentials the
	// harness put into the body, the encoder is a no-op write.
	vsym_Override("(*encoding/json.Decoder).Decode", func(d *json.Decoder, v any) error {
		p := v.(*loginRequest)
		p.Username, p.Password = w.curUser, w.curPass
		return nil
	})
	// net/http's package initialiser (godebug settings, server globals) is outside the executor:
	// Request.Cookie is replaced by a reader of the one "name=value" Cookie header the harness sets.
	vsym_Override("(*net/http.Request).Cookie", func(r *http.Request, name string) (*http.Cookie, error) {
		for _, line := range r.Header["Cookie"] {
			if strings.HasPrefix(line, name+"=") {
				return &http.Cookie{Name: name, Value: line[len(name)+1:]}, nil
			}
		}
		return nil, vsymErrNoCookie
	})
	vsym_Override("github.com/KafScale/platform/internal/console.writeJSON", func(rw http.ResponseWriter, v any) {
		rw.Header().Set("Content-Type", "application/json")
		rw.Write([]byte("{}"))
	})
	vsym_Override("github.com/KafScale/platform/internal/console.generateToken", func(size int) (string, error) {
		w.tokenSeq++
		return "tok" + string(rune('A'+w.tokenSeq)), nil
	})
}

func (w *vsymAuthWorld) age(d int64) {
	for t := range w.a.sessions {
		w.a.sessions[t] = w.a.sessions[t].Add(-time.Duration(d))
	}
	for t := range w.ttlLeft {
		w.ttlLeft[t] -= d
	}
}

func vsymCookieToken(rw *vsymRW) string {
	for _, c := range rw.hdr["Set-Cookie"] {
		if strings.HasPrefix(c, sessionCookieName+"=") {
			v := c[len(sessionCookieName)+1:]
			if i := strings.IndexByte(v, ';'); i >= 0 {
				v = v[:i]
			}
			return v
		}
	}
	return ""
}

func VsymC38_Sessions() {
	vsymPinClock()
	k := vsym_Param("k")
	w := &vsymAuthWorld{ttlLeft: map[string]int64{}}
	w.a = newAuthManager(AuthConfig{Username: "admin", Password: "pw"})
	w.a.limiter = nil // the limiter is the subject of VsymC38_RateLimit
	w.install()
	nextRan := false
	protected := w.a.requireAuth(func(rw http.ResponseWriter, r *http.Request) { nextRan = true; rw.WriteHeader(204) })
	pickCookie := func() string {
		// none / a token never issued / any issued token (live, expired or logged out)
		c := vsym_Choose("cookie", 2+len(w.issued))
		switch c {
		case 0:
			return ""
		case 1:
			return "forged"
		}
		return w.issued[c-2]
	}
	for i := 0; i < k; i++ {
		switch vsym_Choose("op", 5) {
		case 4: // the UI's session-status poll (an unprotected endpoint) with some cookie: reads only
			w.a.handleSession(newVsymRW(), vsymReq("GET", pickCookie(), ""))
		case 0: // login
			w.curUser, w.curPass = "admin", "pw"
			if vsym_Bool("wrongPassword") {
				w.curPass = "nope"
			}
			rw := newVsymRW()
			w.a.handleLogin(rw, vsymReq("POST", "", `{"username":"`+w.curUser+`","password":"`+w.curPass+`"}`))
			tok := vsymCookieToken(rw)
			if w.curPass == "pw" {
				vsym_Assert(rw.status == 200, "C38/valid-login-status")
				vsym_Assert(tok != "", "C38/valid-login-issues-session")
				w.issued = append(w.issued, tok)
				w.ttlLeft[tok] = int64(w.a.ttl)
				vsym_Reach("login")
			} else {
				vsym_Assert(rw.status == 401 && tok == "", "C38/bad-credentials-get-no-session")
			}
		case 1: // logout with some cookie
			c := pickCookie()
			w.a.handleLogout(newVsymRW(), vsymReq("POST", c, ""))
			delete(w.ttlLeft, c)
		case 2: // time passes
			ds := vsym_Int64("dt")
			vsym_Assume(ds >= 0 && ds <= 20*3600)
			w.age(ds*int64(time.Second) + vsymHalf)
		case 3: // request to a protected endpoint
			c := pickCookie()
			left, live := w.ttlLeft[c]
			nextRan = false
			rw := newVsymRW()
			protected(rw, vsymReq("GET", c, ""))
			want := live && left >= 0
			if want {
				vsym_Reach("served")
			} else {
				vsym_Reach("rejected")
			}
			vsym_Assert(nextRan == want, "C38/protected-endpoint-served-iff-live-session")
			vsym_Assert(nextRan || rw.status == 401, "C38/rejected-with-401")
		}
	}
}

// VsymC38_LoginLimit: the limiter as handleLogin uses it. limit+2 login attempts from one address
// at one instant, each with the right or a wrong password (solver's choice): at most `limit` of
// them are evaluated (everything beyond is answered 429), whatever their outcomes were.
func VsymC38_LoginLimit() {
	vsymPinClock()
	limit := vsym_Param("limit")
	w := &vsymAuthWorld{ttlLeft: map[string]int64{}}
	w.a = newAuthManager(AuthConfig{Username: "admin", Password: "pw"})
	w.a.limiter = newLoginRateLimiter(limit, time.Minute)
	w.install()
	evaluated := 0
	for i := 0; i < limit+2; i++ {
		w.curUser, w.curPass = "admin", "pw"
		if vsym_Bool("wrongPassword") {
			w.curPass = "nope"
		}
		rw := newVsymRW()
		w.a.handleLogin(rw, vsymReq("POST", "", `{"username":"`+w.curUser+`","password":"`+w.curPass+`"}`))
		if rw.status != 429 {
			evaluated++
			vsym_Reach("evaluated")
		} else {
			vsym_Reach("limited")
			vsym_Assert(vsymCookieToken(rw) == "", "C38/limited-attempt-gets-no-session")
		}
	}
	vsym_Assert(evaluated <= limit, "C38/at-most-limit-logins-per-window")
}

// disabled auth (no credentials configured): nothing protected is ever served
func VsymC38_Disabled() {
	w := &vsymAuthWorld{ttlLeft: map[string]int64{}}
	w.a = newAuthManager(AuthConfig{})
	w.install()
	ran := false
	h := w.a.requireAuth(func(rw http.ResponseWriter, r *http.Request) { ran = true })
	rw := newVsymRW()
	cookie := ""
	if vsym_Bool("withCookie") {
		cookie = "forged"
	}
	h(rw, vsymReq("GET", cookie, ""))
	vsym_Reach("disabled")
	vsym_Assert(!ran && rw.status == 503, "C38/disabled-auth-serves-nothing")
}

func VsymC38_Twin() {
	vsymPinClock()
	l := newLoginRateLimiter(1, time.Minute)
	a := l.Allow("x")
	b := l.Allow("x")
	vsym_Assert(!(a && !b) || vsym_Bool("z"), "C38/twin")
}
