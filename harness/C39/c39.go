package operator

import (
	metav1 "k8s.io/apimachinery/pkg/apis/meta/v1"

	kafscalev1alpha1 "github.com/KafScale/platform/api/v1alpha1"
)

// C39 — operator metadata matches deployed brokers and derived bucket names are valid.

func vsymC39Itoa(i int32) string {
	if i < 10 {
		return string(rune('0' + i))
	}
	return string(rune('0'+i/10)) + string(rune('0'+i%10))
}

func VsymC39_Metadata() {
	cluster := &kafscalev1alpha1.KafscaleCluster{ObjectMeta: metav1.ObjectMeta{Name: "prod", Namespace: "kafka"}}
	want := int32(1)
	if vsym_Bool("replicasSet") {
		r := vsym_Int32("replicas")
		vsym_Assume(r >= -1 && r <= 4)
		cluster.Spec.Brokers.Replicas = &r
		if r > 0 {
			want = r
		}
	}
	wantPort := int32(9092)
	if vsym_Bool("portSet") {
		p := vsym_Int32("port")
		cluster.Spec.Brokers.AdvertisedPort = &p
		wantPort = vsymIte32(p > 0, p, 9092)
	}
	hosts := []string{"", "kafka.example.com", "  kafka.example.com ", "   "}
	cluster.Spec.Brokers.AdvertisedHost = hosts[vsym_Choose("host", len(hosts))]
	trimmed := []string{"", "kafka.example.com", "kafka.example.com", ""}[vsym_Concrete(0)+int64(indexOfHost(hosts, cluster.Spec.Brokers.AdvertisedHost))]
	nt := vsym_Param("topics")
	topics := make([]kafscalev1alpha1.KafscaleTopic, nt)
	parts := make([]int32, nt)
	for i := range topics {
		parts[i] = vsym_Int32("partitions")
		// the CRD semantics of a partition count: non-negative (a negative count is outside this check)
		vsym_Assume(parts[i] >= 0 && parts[i] <= 5)
		topics[i] = kafscalev1alpha1.KafscaleTopic{ObjectMeta: metav1.ObjectMeta{Name: "t" + vsymC39Itoa(int32(i))}}
		topics[i].Spec.Partitions = parts[i]
	}
	md := BuildClusterMetadata(cluster, topics)
	vsym_Reach("built")
	vsym_Assert(int32(len(md.Brokers)) == want, "C39/one-broker-per-replica")
	ids := map[int32]bool{}
	for i, b := range md.Brokers {
		vsym_Assert(b.NodeID == int32(i), "C39/broker-ids-are-pod-ordinals")
		ids[b.NodeID] = true
		stable := "prod-broker-" + vsymC39Itoa(int32(i)) + ".prod-broker-headless.kafka.svc.cluster.local"
		if want == 1 && trimmed != "" {
			vsym_Assert(b.Host == trimmed, "C39/single-broker-uses-advertised-host")
		} else {
			vsym_Assert(b.Host == stable, "C39/broker-has-stable-pod-address")
		}
		vsym_Assert(b.Port == wantPort, "C39/broker-port")
	}
	vsym_Assert(len(md.Topics) == nt, "C39/every-topic-listed")
	for ti, t := range md.Topics {
		vsym_Assert(t.Topic != nil && *t.Topic == topics[ti].Name, "C39/topic-name")
		vsym_Assert(int32(len(t.Partitions)) == parts[ti], "C39/partition-count")
		for pi, p := range t.Partitions {
			vsym_Assert(p.Partition == int32(pi), "C39/partitions-numbered-from-zero-without-gaps")
			vsym_Assert(ids[p.Leader], "C39/leader-is-a-listed-broker")
			for _, r := range p.Replicas {
				vsym_Assert(ids[r], "C39/replica-is-a-listed-broker")
			}
		}
	}
}

// VsymC39_Published: what the operator publishes is the freshly built metadata merged with the
// snapshot already in etcd (mergeSnapshots). The cluster was built for r1 replicas and published;
// the spec changes to r2 replicas (scale up or down, topics as before, possibly one topic known
// only from the stored snapshot): every partition leader of the published result is a listed broker.
func VsymC39_Published() {
	mk := func(r int32) *kafscalev1alpha1.KafscaleCluster {
		c := &kafscalev1alpha1.KafscaleCluster{ObjectMeta: metav1.ObjectMeta{Name: "prod", Namespace: "kafka"}}
		c.Spec.Brokers.Replicas = &r
		return c
	}
	r1, r2 := vsym_Int32("replicas-before"), vsym_Int32("replicas-after")
	vsym_Assume(vsym_And(vsym_And(r1 >= 1, r1 <= 3), vsym_And(r2 >= 1, r2 <= 3)))
	n := vsym_Int32("partitions")
	vsym_Assume(vsym_And(n >= 1, n <= 4))
	topic := kafscalev1alpha1.KafscaleTopic{ObjectMeta: metav1.ObjectMeta{Name: "t0"}}
	topic.Spec.Partitions = n
	extra := kafscalev1alpha1.KafscaleTopic{ObjectMeta: metav1.ObjectMeta{Name: "made-by-a-broker"}}
	extra.Spec.Partitions = 3
	stored := BuildClusterMetadata(mk(r1), []kafscalev1alpha1.KafscaleTopic{topic, extra})
	fresh := BuildClusterMetadata(mk(r2), []kafscalev1alpha1.KafscaleTopic{topic})
	published := mergeSnapshots(fresh, stored)
	vsym_Reach("published")
	vsym_Assert(int32(len(published.Brokers)) == r2, "C39/one-broker-per-replica")
	ids := map[int32]bool{}
	for _, b := range published.Brokers {
		ids[b.NodeID] = true
	}
	vsym_Assert(len(published.Topics) == 2, "C39/every-topic-listed")
	for _, t := range published.Topics {
		for pi, p := range t.Partitions {
			vsym_Assert(p.Partition == int32(pi), "C39/partitions-numbered-from-zero-without-gaps")
			vsym_Assert(ids[p.Leader], "C39/leader-is-a-listed-broker")
		}
	}
}

func indexOfHost(hs []string, h string) int {
	for i := range hs {
		if hs[i] == h {
			return i
		}
	}
	return 0
}

func vsymIte32(c bool, a, b int32) int32 { return int32(vsym_Ite64(c, int64(a), int64(b))) }

func vsymC39ValidBucket(s string) {
	vsym_Assert(len(s) >= 3, "C39/bucket-name-at-least-3")
	vsym_Assert(len(s) <= 63, "C39/bucket-name-at-most-63")
	for i := 0; i < len(s); i++ {
		c := s[i]
		alnum := (c >= 'a' && c <= 'z') || (c >= '0' && c <= '9')
		if i == 0 || i == len(s)-1 {
			vsym_Assert(alnum, "C39/bucket-name-starts-and-ends-alphanumeric")
		} else {
			vsym_Assert(alnum || c == '-', "C39/bucket-name-charset")
		}
	}
}

// short names: every byte symbolic (any 7-bit character, plus one two-byte rune start)
func VsymC39_BucketShort() {
	n, m := vsym_Param("name"), vsym_Param("ns")
	name, ns := vsym_String("name", n), vsym_String("ns", m)
	for i := 0; i < n; i++ {
		vsym_Assume(name[i] < 0x80)
	}
	for i := 0; i < m; i++ {
		vsym_Assume(ns[i] < 0x80)
	}
	cluster := &kafscalev1alpha1.KafscaleCluster{ObjectMeta: metav1.ObjectMeta{Name: name, Namespace: ns}}
	b := defaultEtcdSnapshotBucket(cluster)
	vsym_Reach("short")
	vsymC39ValidBucket(b)
}

// long names: length is the variable; bytes are 'a' except symbolic ones at the ends and where
// the composed name crosses S3's 63-character limit.
func VsymC39_BucketLong() {
	n := vsym_Param("name")
	raw := make([]byte, n)
	for i := range raw {
		raw[i] = 'a'
	}
	const composedPrefix = len(defaultSnapshotBucketPrefix) + 1 + 2 + 1 // "<prefix>-ns-"
	for _, pos := range []int{0, 62 - composedPrefix, 63 - composedPrefix, n - 1} {
		if pos >= 0 && pos < n {
			c := vsym_Uint8("c")
			vsym_Assume(c < 0x80)
			raw[pos] = c
		}
	}
	cluster := &kafscalev1alpha1.KafscaleCluster{ObjectMeta: metav1.ObjectMeta{Name: string(raw), Namespace: "ns"}}
	b := defaultEtcdSnapshotBucket(cluster)
	vsym_Reach("long")
	vsymC39ValidBucket(b)
}

func VsymC39_Twin() {
	cluster := &kafscalev1alpha1.KafscaleCluster{ObjectMeta: metav1.ObjectMeta{Name: vsym_String("name", 1)}}
	vsym_Assert(len(defaultEtcdSnapshotBucket(cluster)) != len(defaultSnapshotBucketPrefix), "C39/twin")
}
