package main

import (
	"io"
	"log/slog"

	clientv3 "go.etcd.io/etcd/client/v3"

	"github.com/KafScale/platform/pkg/metadata"
	"github.com/KafScale/platform/pkg/protocol"
)

// C19 — a broker appends only to partitions whose lease it holds.
//
// The real handler (broker "1") gets the real PartitionLeaseManager over the etcd model. For
// each of the three requested partitions the lease state is chosen by the explorer: free,
// already held by this broker (an earlier produce acquired it), held by broker "2", or the
// lease transaction fails (etcd error). After the produce: a partition is acknowledged only if
// this broker's id is in the lease key and the manager reports ownership; a partition held by
// another broker answers NOT_LEADER_OR_FOLLOWER; an etcd failure answers a retriable code; and
// in both refusal cases nothing was appended or written to S3 for that partition.
func VsymC19_Leases() {
	b := vsymNewBroker()
	e := newVsymEtcd()
	cli := e.client("broker-1")
	lm := metadata.NewPartitionLeaseManager(cli, metadata.PartitionLeaseConfig{BrokerID: "1", Logger: slog.New(slog.NewTextHandler(io.Discard, nil))})
	b.h.leaseManager = lm
	tps := []vsymTP{{"t0", 0}, {"t0", 1}, {"t1", 0}}
	state := make([]int, len(tps))
	failKey := ""
	var oldLease clientv3.LeaseID
	for i, tp := range tps {
		state[i] = vsym_Choose("lease-state", 5)
		key := metadata.PartitionLeasePrefix() + "/" + tp.topic + "/" + string(rune('0'+tp.part))
		switch state[i] {
		case 1: // an earlier produce of this broker acquired it
			codes := b.vsymProduce(vsymProduceReq(1, []vsymTP{tp}, []byte{1}))
			vsym_Assert(codes[tp] == 0, "C19/setup-acquire")
		case 2: // another broker holds it
			e.put(key, []byte("2"), 0)
		case 3: // etcd fails on this key's transaction
			failKey = key
		case 4: // the key names this broker, written by its previous incarnation under a lease that is still alive
			if oldLease == 0 {
				e.nextID++
				oldLease = clientv3.LeaseID(1000 + e.nextID)
				e.leases[oldLease] = &vsymEtcdLease{id: oldLease, alive: true}
			}
			e.put(key, []byte("1"), oldLease)
		}
	}
	if failKey != "" {
		e.failNext = func(op, key string) bool { return op == "txn" && key == failKey }
	}
	writesBefore := len(b.s3.writes)
	acks := int16(1)
	if vsym_Bool("acks-all") {
		acks = -1
	}
	codes := b.vsymProduce(vsymProduceReq(acks, tps, vsym_Bytes("payload", 1)))
	vsym_Reach("produced")
	for i, tp := range tps {
		code, ok := codes[tp]
		vsym_Assert(ok, "C19/every-partition-answered")
		key := metadata.PartitionLeasePrefix() + "/" + tp.topic + "/" + string(rune('0'+tp.part))
		owner := ""
		if en, found := e.data[key]; found {
			owner = string(en.value)
		}
		if code == 0 {
			vsym_Reach("acknowledged")
			vsym_Assert(owner == "1" && lm.Owns(tp.topic, tp.part), "C19/acknowledged-only-while-holding-the-lease")
		}
		switch state[i] {
		case 2:
			vsym_Assert(code == protocol.NOT_LEADER_OR_FOLLOWER, "C19/foreign-lease-answers-not-leader")
		case 3:
			if failKey == key {
				vsym_Assert(code != 0 && vsymRetriable19(code), "C19/lease-failure-answers-a-retriable-error")
			}
		}
		if code != 0 && state[i] != 1 {
			vsym_Assert(!b.appended(tp), "C19/nothing-appended-without-the-lease")
		}
	}
	refused := 0
	for _, tp := range tps {
		if codes[tp] != 0 {
			refused++
		}
	}
	if refused == len(tps) {
		vsym_Assert(len(b.s3.writes) == writesBefore, "C19/no-s3-write-when-every-partition-is-refused")
	}
	if oldLease == 0 {
		return
	}
	// later the previous incarnation's lease runs out: etcd drops whatever keys still hang on it,
	// broker 2 takes any partition that became free, and this broker produces again
	e.failNext = nil
	e.expire(oldLease)
	var again []vsymTP
	for i, tp := range tps {
		if state[i] != 4 {
			continue
		}
		key := metadata.PartitionLeasePrefix() + "/" + tp.topic + "/" + string(rune('0'+tp.part))
		if _, found := e.data[key]; !found {
			e.put(key, []byte("2"), 0)
		}
		again = append(again, tp)
	}
	codes2 := b.vsymProduce(vsymProduceReq(acks, again, []byte{7}))
	vsym_Reach("produced-after-old-lease-ended")
	for _, tp := range again {
		key := metadata.PartitionLeasePrefix() + "/" + tp.topic + "/" + string(rune('0'+tp.part))
		owner := ""
		if en, found := e.data[key]; found {
			owner = string(en.value)
		}
		if codes2[tp] == 0 {
			vsym_Assert(owner == "1", "C19/acknowledged-only-while-holding-the-lease")
		}
	}
}

func vsymRetriable19(code int16) bool {
	switch code {
	case protocol.REQUEST_TIMED_OUT, protocol.NOT_LEADER_OR_FOLLOWER, 56, 5:
		return true
	}
	return false
}

func VsymC19_Twin() {
	b := vsymNewBroker()
	e := newVsymEtcd()
	b.h.leaseManager = metadata.NewPartitionLeaseManager(e.client("broker-1"), metadata.PartitionLeaseConfig{BrokerID: "1"})
	codes := b.vsymProduce(vsymProduceReq(1, []vsymTP{{"t0", 0}}, vsym_Bytes("payload", 1)))
	vsym_Assert(codes[vsymTP{"t0", 0}] != 0, "C19/twin")
}
