package operator

import (
	"github.com/twmb/franz-go/pkg/kmsg"

	"github.com/KafScale/platform/pkg/metadata"
	"github.com/KafScale/platform/pkg/protocol"
)

// C21 (operator side) — reconciling the snapshot from topic resources never makes an
// acknowledged topic disappear or its partition count shrink.
//
// existing = what brokers have acknowledged so far (healthy topics with symbolic partition
// counts); next = what the operator renders from its topic resources (a subset or superset of
// the names, with its own symbolic counts). mergeSnapshots(next, existing) is what gets published.
func vsymC21Topic(name string, n int32) protocol.MetadataTopic {
	t := protocol.MetadataTopic{Topic: kmsg.StringPtr(name)}
	for p := int32(0); p < n; p++ {
		t.Partitions = append(t.Partitions, protocol.MetadataPartition{Partition: p})
	}
	return t
}

func VsymC21_Merge() {
	names := []string{"alpha", "beta"}
	var existing, next metadata.ClusterMetadata
	have := map[string]int32{}
	for _, n := range names {
		if vsym_Bool("in-existing") {
			c := vsym_Int32("existing-partitions")
			vsym_Assume(vsym_And(c >= 1, c <= 3))
			existing.Topics = append(existing.Topics, vsymC21Topic(n, c))
			have[n] = c
		}
		if vsym_Bool("in-resources") {
			c := vsym_Int32("resource-partitions")
			vsym_Assume(vsym_And(c >= 1, c <= 3))
			next.Topics = append(next.Topics, vsymC21Topic(n, c))
		}
	}
	merged := mergeSnapshots(next, existing)
	vsym_Reach("merged")
	for n, c := range have {
		found := false
		for _, t := range merged.Topics {
			if t.Topic != nil && *t.Topic == n {
				found = true
				vsym_Assert(int32(len(t.Partitions)) >= c, "C21/reconcile-never-shrinks-an-acknowledged-partition-count")
			}
		}
		vsym_Assert(found, "C21/reconcile-never-drops-an-acknowledged-topic")
	}
}

func VsymC21_MergeTwin() {
	existing := metadata.ClusterMetadata{Topics: []protocol.MetadataTopic{vsymC21Topic("alpha", 1)}}
	merged := mergeSnapshots(metadata.ClusterMetadata{}, existing)
	vsym_Assert(len(merged.Topics) == 0 || vsym_Bool("z"), "C21/twin")
}
