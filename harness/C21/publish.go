package operator

import (
	"context"
	"encoding/json"
	"time"

	clientv3 "go.etcd.io/etcd/client/v3"

	"github.com/KafScale/platform/pkg/metadata"
	"github.com/KafScale/platform/pkg/protocol"
)

// C21 (operator publish) — the real PublishMetadataSnapshot (get, merge, compare-and-swap put,
// retry on conflict) runs against the etcd model while a broker acknowledges a topic of its own
// with a compare-and-swap write to the same snapshot key; every etcd call of either side is a
// scheduling point. At quiescence nothing that was acknowledged is missing from the snapshot.
//
// PublishMetadataSnapshot dials etcd itself (clientv3.New); the spec rewrites that one call into
// vsymC21NewClient, which hands out a client over the model (the rewrite is applied to /repo's
// current source on every run, for the executor and for native replays alike).

type vsymC21CtxKey struct{}

type vsymC21Ctx struct {
	context.Context
	e *vsymEtcd
}

func (c vsymC21Ctx) Value(k any) any {
	if _, ok := k.(vsymC21CtxKey); ok {
		return c.e
	}
	return c.Context.Value(k)
}

// (the model travels in the context: pkg/operator's package initialiser is not run under the
// executor, so the harness keeps no package variables)
func vsymC21NewClient(ctx context.Context, cfg clientv3.Config) (*clientv3.Client, error) {
	return ctx.Value(vsymC21CtxKey{}).(*vsymEtcd).client("operator"), nil
}

const vsymC21Key = "/kafscale/metadata/snapshot"

func vsymC21Topics(m map[string]int32) []protocol.MetadataTopic {
	var out []protocol.MetadataTopic
	for _, n := range []string{"alpha", "clicks", "orders"} {
		if c, ok := m[n]; ok {
			out = append(out, vsymC21Topic(n, c))
		}
	}
	return out
}

func vsymC21Names(raw []byte) map[string]int {
	var md metadata.ClusterMetadata
	out := map[string]int{}
	if json.Unmarshal(raw, &md) != nil {
		return out
	}
	for _, t := range md.Topics {
		if t.Topic != nil {
			out[*t.Topic] = len(t.Partitions)
		}
	}
	return out
}

func VsymC21_Publish() {
	e := newVsymEtcd()
	if vsym_Symbolic() {
		vsym_Override("time.Now", func() time.Time { return time.Unix(1700000000, 0) })
		// virtual time: the back-off between attempts elapses at once
		vsym_Override("github.com/KafScale/platform/pkg/operator.sleepWithContext", func(ctx context.Context, d time.Duration) error { return nil })
	}
	had := vsym_Bool("snapshot-exists")
	if had {
		first, err := json.Marshal(metadata.ClusterMetadata{Topics: vsymC21Topics(map[string]int32{"alpha": 2})})
		vsym_Assert(err == nil, "C21/setup")
		e.put(vsymC21Key, first, 0)
	}
	e.onOpWho = func(who, op, key string) {
		if op == "get" || op == "txn" {
			vsym_Event(who + ":" + op)
		}
	}
	vsym_ExploreEvents()
	vsym_PreemptionBound(3)
	brokerAcked := false
	vsym_Go(func() {
		// a broker creates topic clicks: read, add, compare-and-swap (what EtcdStore does)
		cli := e.client("broker")
		for attempt := 0; attempt < 3 && !brokerAcked; attempt++ {
			resp, err := cli.Get(context.Background(), vsymC21Key)
			vsym_Assert(err == nil, "C21/broker-get")
			topics := map[string]int32{"clicks": 1}
			cmp := clientv3.Compare(clientv3.Version(vsymC21Key), "=", 0)
			if len(resp.Kvs) > 0 {
				for n, c := range vsymC21Names(resp.Kvs[0].Value) {
					topics[n] = int32(c)
				}
				topics["clicks"] = 1
				cmp = clientv3.Compare(clientv3.ModRevision(vsymC21Key), "=", resp.Kvs[0].ModRevision)
			}
			payload, _ := json.Marshal(metadata.ClusterMetadata{Topics: vsymC21Topics(topics)})
			tr, err := cli.Txn(context.Background()).If(cmp).Then(clientv3.OpPut(vsymC21Key, string(payload))).Commit()
			vsym_Assert(err == nil, "C21/broker-txn")
			brokerAcked = tr.Succeeded
		}
	})
	operatorErr := error(nil)
	vsym_Go(func() {
		operatorErr = PublishMetadataSnapshot(vsymC21Ctx{context.Background(), e}, []string{"model:2379"}, metadata.ClusterMetadata{Topics: vsymC21Topics(map[string]int32{"orders": 2})})
	})
	vsym_Join()
	vsym_Reach("published")
	en, ok := e.data[vsymC21Key]
	vsym_Assert(ok, "C21/snapshot-present")
	got := vsymC21Names(en.value)
	if brokerAcked {
		vsym_Assert(got["clicks"] == 1, "C21/acknowledged-topic-survives-an-operator-publish")
	}
	if had {
		vsym_Assert(got["alpha"] == 2, "C21/acknowledged-topic-survives-an-operator-publish")
	}
	if operatorErr == nil {
		vsym_Assert(got["orders"] == 2, "C21/published-resource-topic-present")
	}
}
