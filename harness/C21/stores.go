package metadata

import (
	"context"
	"time"

	"github.com/twmb/franz-go/pkg/kmsg"

	"github.com/KafScale/platform/pkg/protocol"
)

// C21 (broker side) — an acknowledged topic creation or partition increase is never lost to
// another broker's admin operation.
//
// Two brokers, each with its own real EtcdStore (in-memory snapshot + etcd model + the real
// snapshot watcher goroutine), share one etcd. Each runs one admin operation (create topic x /
// create topic y / grow t to 3 partitions, chosen by the explorer) as its own logical thread;
// every etcd call is a scheduling point, and watch deliveries happen whenever the watcher
// goroutines are scheduled. At quiescence every acknowledged creation/growth must be visible in
// the etcd snapshot and on both brokers.

func vsymC21Store(e *vsymEtcd, who string) *EtcdStore {
	s := &EtcdStore{client: e.client(who), metadata: NewInMemoryStore(vsymC21Snapshot()), available: 1}
	s.startWatchers()
	return s
}

func vsymC21Snapshot() ClusterMetadata {
	t := protocol.MetadataTopic{Topic: kmsg.StringPtr("t"), TopicID: TopicIDForName("t")}
	for p := 0; p < 2; p++ {
		t.Partitions = append(t.Partitions, protocol.MetadataPartition{Partition: int32(p), Leader: 1, Replicas: []int32{1}, ISR: []int32{1}})
	}
	return ClusterMetadata{Brokers: []protocol.MetadataBroker{{NodeID: 1, Host: "b", Port: 9092}}, ControllerID: 1, Topics: []protocol.MetadataTopic{t}}
}

type vsymC21Ack struct {
	topic string
	parts int
}

func vsymC21Admin(s *EtcdStore, op int, who string) (vsymC21Ack, bool) {
	ctx := context.Background()
	switch op {
	case 0:
		name := "x" + who
		_, err := s.CreateTopic(ctx, TopicSpec{Name: name, NumPartitions: 1, ReplicationFactor: 1})
		return vsymC21Ack{name, 1}, err == nil
	case 1:
		err := s.CreatePartitions(ctx, "t", 3)
		return vsymC21Ack{"t", 3}, err == nil
	}
	return vsymC21Ack{}, false
}

func vsymC21Has(md *ClusterMetadata, a vsymC21Ack) bool {
	for _, t := range md.Topics {
		if t.Topic != nil && *t.Topic == a.topic && t.ErrorCode == 0 {
			return len(t.Partitions) >= a.parts
		}
	}
	return false
}

func VsymC21_TwoBrokers() {
	if vsym_Symbolic() {
		vsym_Override("time.Now", func() time.Time { return time.Unix(1700000000, 0) })
	}
	e := newVsymEtcd()
	a, b := vsymC21Store(e, "a"), vsymC21Store(e, "b")
	// the snapshot both brokers start from is in etcd (the operator published it)
	vsym_Assert(a.persistSnapshot(context.Background()) == nil, "C21/initial-snapshot")
	vsym_Settle()
	e.onOp = func(op, key string) {
		if op == "put" || op == "get" {
			vsym_Event(op + ":" + key)
		}
	}
	vsym_ExploreEvents()
	vsym_DaemonsFirst()
	vsym_PreemptionBound(vsym_Param("preempt"))
	var acks []vsymC21Ack
	opA, opB := vsym_Choose("op-a", 2), vsym_Choose("op-b", 2)
	vsym_Go(func() {
		if ack, ok := vsymC21Admin(a, opA, "a"); ok {
			acks = append(acks, ack)
		}
	})
	vsym_Go(func() {
		if ack, ok := vsymC21Admin(b, opB, "b"); ok {
			acks = append(acks, ack)
		}
	})
	vsym_Join()
	e.onOp = nil
	vsym_Settle()
	vsym_Reach("quiescent")
	ma, _ := a.Metadata(context.Background(), nil)
	mb, _ := b.Metadata(context.Background(), nil)
	for _, ack := range acks {
		vsym_Assert(vsymC21Has(ma, ack), "C21/acknowledged-change-visible-on-broker-a")
		vsym_Assert(vsymC21Has(mb, ack), "C21/acknowledged-change-visible-on-broker-b")
	}
}

func VsymC21_StoresTwin() {
	e := newVsymEtcd()
	a := vsymC21Store(e, "a")
	_, ok := vsymC21Admin(a, 0, "a")
	vsym_Assert(!ok || vsym_Bool("z"), "C21/stores-twin")
}
