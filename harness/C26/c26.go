package broker

import (
	"encoding/binary"
	"io"
	"net"
	"time"
)

// C26 — PROXY protocol parsing preserves the stream exactly.

type vsymConn struct {
	data  []byte
	pos   int
	chunk int // max bytes delivered per Read (0 = everything)
}

func (c *vsymConn) Read(p []byte) (int, error) {
	if c.pos >= len(c.data) {
		return 0, io.EOF
	}
	n := len(c.data) - c.pos
	if n > len(p) {
		n = len(p)
	}
	if c.chunk > 0 && n > c.chunk {
		n = c.chunk
	}
	copy(p, c.data[c.pos:c.pos+n])
	c.pos += n
	return n, nil
}
func (c *vsymConn) Write(p []byte) (int, error)        { return len(p), nil }
func (c *vsymConn) Close() error                       { return nil }
func (c *vsymConn) LocalAddr() net.Addr                { return nil }
func (c *vsymConn) RemoteAddr() net.Addr               { return nil }
func (c *vsymConn) SetDeadline(t time.Time) error      { return nil }
func (c *vsymConn) SetReadDeadline(t time.Time) error  { return nil }
func (c *vsymConn) SetWriteDeadline(t time.Time) error { return nil }

func vsymDrain(c net.Conn, max int) []byte {
	var out []byte
	buf := make([]byte, 7)
	for i := 0; i < max+2; i++ {
		n, err := c.Read(buf)
		out = append(out, buf[:n]...)
		if err != nil {
			break
		}
	}
	return out
}

// v2: 12-byte signature, ver/cmd, fam/proto, 16-bit length, payload of plen bytes, trailing bytes.
func VsymC26_V2() {
	plen := vsym_Param("plen")
	ntrail := vsym_Param("trail")
	chunk := vsym_Param("chunk")
	hdr := append([]byte(nil), proxyV2Signature...)
	vc := vsym_Uint8("vercmd")
	fp := vsym_Uint8("famproto")
	vsym_Assume(vc>>4 == 2)
	cmd := vc & 0x0f
	vsym_Assume(cmd <= 1)
	hdr = append(hdr, vc, fp, byte(plen>>8), byte(plen))
	payload := vsym_Bytes("payload", plen)
	if plen > 40 {
		// a long header (address block plus TLVs, up to 65535 bytes): the TLV area is concrete filler
		payload = append(vsym_Bytes("payload", 40), make([]byte, plen-40)...)
	}
	trail := vsym_Bytes("trail", ntrail)
	stream := append(append(append([]byte(nil), hdr...), payload...), trail...)
	conn := &vsymConn{data: stream, chunk: chunk}
	wrapped, info, err := ReadProxyProtocol(conn)
	fam := fp >> 4 // HAProxy spec: address family is the high nibble of byte 13
	switch {
	case cmd == 0:
		vsym_Reach("local")
		vsym_Assert(err == nil && info != nil && info.Local, "C26/v2-local")
	case fam == 1:
		if plen < 12 {
			vsym_Assert(err != nil, "C26/v2-inet-short-rejected")
			return
		}
		vsym_Reach("inet")
		vsym_Assert(err == nil && info != nil, "C26/v2-inet-parsed")
		vsym_Assert(!info.Local, "C26/v2-inet-not-local")
		vsym_Assert(info.SourcePort == int(binary.BigEndian.Uint16(payload[8:10])) && info.DestPort == int(binary.BigEndian.Uint16(payload[10:12])), "C26/v2-inet-ports")
		vsym_Assert(vsym_StrEq(info.SourceIP, net.IP(payload[0:4]).String()) && vsym_StrEq(info.DestIP, net.IP(payload[4:8]).String()), "C26/v2-inet-addrs")
	case fam == 2:
		if plen < 36 {
			vsym_Assert(err != nil, "C26/v2-inet6-short-rejected")
			return
		}
		vsym_Reach("inet6")
		vsym_Assert(err == nil && info != nil, "C26/v2-inet6-parsed")
		vsym_Assert(info.SourcePort == int(binary.BigEndian.Uint16(payload[32:34])) && info.DestPort == int(binary.BigEndian.Uint16(payload[34:36])), "C26/v2-inet6-ports")
		vsym_Assert(vsym_StrEq(info.SourceIP, net.IP(payload[0:16]).String()) && vsym_StrEq(info.DestIP, net.IP(payload[16:32]).String()), "C26/v2-inet6-addrs")
	default:
		vsym_Reach("other-family")
		vsym_Assert(err == nil, "C26/v2-unspec-accepted")
		vsym_Assert(info == nil || (info.SourceIP == "" && info.SourcePort == 0), "C26/v2-unspec-no-address")
	}
	if err == nil {
		rest := vsymDrain(wrapped, ntrail)
		vsym_Assert(len(rest) == ntrail && vsym_BytesEq(rest, trail), "C26/v2-stream-preserved")
	}
}

// No header: an arbitrary byte string that is not a PROXY header passes through unchanged.
func VsymC26_NoHeader() {
	n := vsym_Param("n")
	chunk := vsym_Param("chunk")
	stream := vsym_Bytes("stream", n)
	isV1 := n >= 5 && stream[0] == 'P' && stream[1] == 'R' && stream[2] == 'O' && stream[3] == 'X' && stream[4] == 'Y'
	isV2 := n >= 5 && stream[0] == '\r' && stream[1] == '\n' && stream[2] == '\r' && stream[3] == '\n' && stream[4] == 0
	vsym_Assume(!isV1 && !isV2)
	conn := &vsymConn{data: append([]byte(nil), stream...), chunk: chunk}
	wrapped, info, err := ReadProxyProtocol(conn)
	vsym_Reach("passthrough")
	vsym_Assert(err == nil && info == nil, "C26/noheader-no-info")
	rest := vsymDrain(wrapped, n)
	vsym_Assert(len(rest) == n && vsym_BytesEq(rest, stream), "C26/noheader-stream-preserved")
}

// Arbitrary bytes (including truncated / malformed headers): never a panic.
// kind 0: any bytes not starting with "PROXY"; kind 1: after the v2 signature (declared
// length < 40); kind 2: after "PROXY".
func VsymC26_AnyBytes() {
	n := vsym_Param("n")
	stream := vsym_Bytes("stream", n)
	kind := vsym_Param("kind")
	if kind == 0 && n >= 5 {
		vsym_Assume(!vsym_BytesEq(stream[:5], []byte("PROXY")))
	}
	if kind == 1 && n >= 12 {
		copy(stream, proxyV2Signature)
		if n >= 16 {
			vsym_Assume(stream[14] == 0 && stream[15] < 40)
		}
	}
	if kind == 2 && n >= 5 {
		copy(stream, []byte("PROXY"))
	}
	conn := &vsymConn{data: stream, chunk: 0}
	wrapped, _, err := ReadProxyProtocol(conn)
	if err == nil {
		vsym_Reach("ok")
		_ = vsymDrain(wrapped, n)
	} else {
		vsym_Reach("err")
	}
}

// v1: "PROXY TCP4|TCP6 <src> <dst> <sport> <dport>\r\n" with symbolic short tokens.
func VsymC26_V1() {
	ntrail := vsym_Param("trail")
	proto := vsym_Param("proto") // 0 TCP4, 1 TCP6, 2 UNKNOWN, 3 UNKNOWN followed by addresses (to be ignored), 4 UNKNOWN + one field
	protos := []string{"TCP4", "TCP6", "UNKNOWN", "UNKNOWN", "UNKNOWN"}
	src := vsym_String("src", 2)
	dst := vsym_String("dst", 1)
	sp := vsym_String("sport", 2)
	dp := vsym_String("dport", 1)
	for _, s := range []string{src, dst} {
		for i := 0; i < len(s); i++ {
			vsym_Assume(s[i] > ' ' && s[i] < 0x7f)
		}
	}
	for _, s := range []string{sp, dp} {
		for i := 0; i < len(s); i++ {
			vsym_Assume(s[i] >= '0' && s[i] <= '9')
		}
	}
	line := "PROXY " + protos[proto]
	if proto != 2 && proto != 4 {
		line += " " + src + " " + dst + " " + sp + " " + dp
	}
	if proto == 4 {
		line += " " + src
	}
	line += "\r\n"
	trail := vsym_Bytes("trail", ntrail)
	stream := append([]byte(line), trail...)
	conn := &vsymConn{data: stream, chunk: vsym_Param("chunk")}
	wrapped, info, err := ReadProxyProtocol(conn)
	vsym_Assert(err == nil && info != nil, "C26/v1-parsed")
	vsym_Reach("v1")
	if proto >= 2 {
		// "the receiver must ignore anything presented before the CRLF" after UNKNOWN
		vsym_Assert(info.Local, "C26/v1-unknown-local")
	} else {
		vsym_Assert(vsym_StrEq(info.SourceIP, src) && vsym_StrEq(info.DestIP, dst), "C26/v1-addrs")
		wantSP := int(sp[0]-'0')*10 + int(sp[1]-'0')
		wantDP := int(dp[0] - '0')
		vsym_Assert(info.SourcePort == wantSP && info.DestPort == wantDP, "C26/v1-ports")
	}
	rest := vsymDrain(wrapped, ntrail)
	vsym_Assert(len(rest) == ntrail && vsym_BytesEq(rest, trail), "C26/v1-stream-preserved")
}

func VsymC26_Twin() {
	conn := &vsymConn{data: vsym_Bytes("s", 3)}
	_, info, err := ReadProxyProtocol(conn)
	vsym_Assert(err != nil || info != nil, "C26/twin")
}

func VsymC26_AnyBytesV2() { VsymC26_AnyBytes() }
func VsymC26_AnyBytesV1() { VsymC26_AnyBytes() }
