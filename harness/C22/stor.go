package storage

import "strings"

// C22 — different topics never share S3 object keys or cache keys.

func vsymTopicName(tag string, n int) string {
	s := vsym_String(tag, n)
	for i := 0; i < n; i++ {
		c := s[i]
		vsym_Assume(vsym_Or(c == 'a', vsym_Or(c == 'A', vsym_Or(c == 'b', vsym_Or(c == '0', vsym_Or(c == '.', vsym_Or(c == '/', vsym_Or(c == ':', c == '-'))))))))
	}
	return s
}

// vsymTopicAccepted mirrors the name validation of metadata.CreateTopic (checked against the real
// function in the metadata unit: both units use the same predicate on the same alphabet).
func vsymTopicAccepted(s string) bool {
	if len(s) == 0 || len(s) > 249 {
		return false
	}
	all := !vsym_StrEq(s, ".") && !vsym_StrEq(s, "..")
	for i := 0; i < len(s); i++ {
		c := s[i]
		ok := vsym_Or(vsym_And(c >= 'a', c <= 'z'), vsym_Or(vsym_And(c >= 'A', c <= 'Z'), vsym_Or(vsym_And(c >= '0', c <= '9'), vsym_Or(c == '.', vsym_Or(c == '_', c == '-')))))
		all = vsym_And(all, ok)
	}
	return all
}

func vsymNeq(x, y string) bool { return !vsym_StrEq(x, y) }

func VsymC22_StorageKeys() {
	a := vsymTopicName("a", vsym_Param("la"))
	b := vsymTopicName("b", vsym_Param("lb"))
	vsym_Assume(vsymNeq(a, b))
	if !vsymTopicAccepted(a) || !vsymTopicAccepted(b) {
		vsym_Reach("rejected")
		return
	}
	vsym_Reach("accepted")
	pa := int32(vsym_Choose("pa", 2))
	pb := int32(vsym_Choose("pb", 2))
	la := &PartitionLog{namespace: "default", topic: a, partition: pa}
	lb := &PartitionLog{namespace: "default", topic: b, partition: pb}
	vsym_Assert(vsymNeq(la.segmentKey(0), lb.segmentKey(0)) && vsymNeq(la.indexKey(0), lb.indexKey(0)), "C22/s3-object-key-distinct")
	vsym_Assert(vsymNeq(la.segmentKey(0), lb.indexKey(0)), "C22/s3-segment-vs-index-distinct")
	vsym_Assert(!strings.HasPrefix(lb.segmentKey(0), la.segmentPrefix()) && !strings.HasPrefix(lb.indexKey(0), la.segmentPrefix()), "C22/s3-list-prefix-spares-other-topic")
	vsym_Assert(vsymNeq(la.cacheTopicKey(), lb.cacheTopicKey()), "C22/cache-topic-key-distinct")
	vsym_Assert(vsymNeq(segmentObjectKey("default", a, pa, 0), segmentObjectKey("default", b, pb, 0)) && vsymNeq(segmentIndexKey("default", a, pa, 0), segmentIndexKey("default", b, pb, 0)), "C22/restore-object-key-distinct")
	// a topic never aliases a partition directory of another topic
	vsym_Assert(!strings.HasPrefix(la.segmentKey(0), "default/"+b+"/"), "C22/s3-topic-vs-partition-of-other")
}
