package main

import (
	"bytes"
	"context"
	"io"
	"log/slog"
	"strings"

	"github.com/KafScale/platform/pkg/metadata"
	"github.com/KafScale/platform/pkg/protocol"
)

// C22 (broker level) — two partitions of different topics opened for the first time at the same
// moment never end up sharing a partition log. Topic "t" has 11 partitions and topic "t1" one:
// every place that builds a key from topic and partition sees ("t", 10) and ("t1", 0). Two
// producers run through the real handleProduce / getPartitionLog (singleflight initialisation);
// the metadata store's NextOffset and every S3 call are scheduling points.

type vsymC22Store struct{ *vsymMonStore }

func (s vsymC22Store) NextOffset(ctx context.Context, topic string, partition int32) (int64, error) {
	vsym_Event("next-offset:" + topic)
	return s.vsymMonStore.NextOffset(ctx, topic, partition)
}

func VsymC22_ConcurrentOpen() {
	vsymPinClockB()
	b := &vsymBroker{s3: newVsymMonS3()}
	info := protocol.MetadataBroker{NodeID: 1, Host: "b1", Port: 9092}
	b.store = metadata.NewInMemoryStore(metadata.ClusterMetadata{
		Brokers:      []protocol.MetadataBroker{info},
		ControllerID: 1,
		Topics:       []protocol.MetadataTopic{vsymTopic("t", 11), vsymTopic("t1", 1)},
	})
	mon := &vsymMonStore{InMemoryStore: b.store}
	b.h = newHandler(vsymC22Store{mon}, b.s3, info, slog.New(slog.NewTextHandler(io.Discard, nil)))
	vsym_ExploreEvents()
	vsym_PreemptionBound(2)
	markA, markB := []byte{0xA1, 0xA1, 0xA1, 0xA1}, []byte{0xB2, 0xB2, 0xB2, 0xB2}
	var codeA, codeB int16 = -1, -1
	vsym_Go(func() {
		codeA = b.vsymProduce(vsymProduceReq(-1, []vsymTP{{"t", 10}}, markA))[vsymTP{"t", 10}]
	})
	vsym_Go(func() {
		codeB = b.vsymProduce(vsymProduceReq(-1, []vsymTP{{"t1", 0}}, markB))[vsymTP{"t1", 0}]
	})
	vsym_Join()
	vsym_Reach("both-produced")
	vsym_Assert(codeA == 0 && codeB == 0, "C22/both-produces-acknowledged")
	foundA, foundB := false, false
	for key, body := range b.s3.objs {
		if !strings.HasSuffix(key, ".kfs") {
			continue
		}
		hasA, hasB := bytes.Contains(body, markA), bytes.Contains(body, markB)
		if strings.Contains(key, "/t/10/") {
			vsym_Assert(!hasB, "C22/no-record-of-another-topic-in-this-topic's-objects")
			foundA = foundA || hasA
		}
		if strings.Contains(key, "/t1/0/") {
			vsym_Assert(!hasA, "C22/no-record-of-another-topic-in-this-topic's-objects")
			foundB = foundB || hasB
		}
	}
	vsym_Assert(foundA && foundB, "C22/each-acknowledged-record-is-stored-under-its-own-topic")
}
