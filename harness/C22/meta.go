package metadata

import (
	"context"
	"strings"
	"time"

	"github.com/KafScale/platform/pkg/protocol"
)

// C22 — different topics never share metadata keys (in-memory map keys and etcd keys).

func vsymTopicName(tag string, n int) string {
	s := vsym_String(tag, n)
	for i := 0; i < n; i++ {
		c := s[i]
		// alphabet: letters, digit, and the separators used by the key builders
		vsym_Assume(vsym_Or(c == 'a', vsym_Or(c == 'b', vsym_Or(c == '0', vsym_Or(c == '.', vsym_Or(c == '/', vsym_Or(c == ':', c == '-')))))))
	}
	return s
}

func vsymNeq(x, y string) bool { return !vsym_StrEq(x, y) }

func VsymC22_MetadataKeys() {
	ctx := context.Background()
	a := vsymTopicName("a", vsym_Param("la"))
	b := vsymTopicName("b", vsym_Param("lb"))
	st := NewInMemoryStore(ClusterMetadata{Brokers: []protocol.MetadataBroker{{NodeID: 1}}})
	_, errA := st.CreateTopic(ctx, TopicSpec{Name: a, NumPartitions: 2, ReplicationFactor: 1})
	_, errB := st.CreateTopic(ctx, TopicSpec{Name: b, NumPartitions: 2, ReplicationFactor: 1})
	if errA != nil || errB != nil {
		vsym_Reach("rejected")
		return
	}
	vsym_Reach("accepted") // both accepted, hence distinct (the second would be ErrTopicExists)
	pa := int32(vsym_Choose("pa", 2))
	pb := int32(vsym_Choose("pb", 2))
	// in-memory store
	vsym_Assert(vsymNeq(partitionKey(a, pa), partitionKey(b, pb)), "C22/mem-offset-key-distinct")
	vsym_Assert(!strings.HasPrefix(partitionKey(b, pb), a+":"), "C22/mem-delete-prefix-spares-other-topic")
	// etcd keys
	vsym_Assert(vsymNeq(offsetKey(a, pa), offsetKey(b, pb)), "C22/etcd-offset-key-distinct")
	vsym_Assert(vsymNeq(TopicConfigKey(a), TopicConfigKey(b)), "C22/etcd-config-key-distinct")
	vsym_Assert(vsymNeq(PartitionStateKey(a, pa), PartitionStateKey(b, pb)), "C22/etcd-state-key-distinct")
	vsym_Assert(vsymNeq(TopicConfigKey(a), PartitionStateKey(b, pb)) && vsymNeq(TopicConfigKey(a), offsetKey(b, pb)), "C22/etcd-topic-vs-partition-of-other")
	vsym_Assert(vsymNeq(partitionLeaseKey(a, pa), partitionLeaseKey(b, pb)), "C22/etcd-lease-key-distinct")
	vsym_Assert(vsymNeq(PartitionAssignmentKey(a, pa), PartitionAssignmentKey(b, pb)), "C22/etcd-assignment-key-distinct")
	delPrefix := "/kafscale/topics/" + a + "/" // EtcdStore.deleteTopicOffsets
	vsym_Assert(!strings.HasPrefix(offsetKey(b, pb), delPrefix) && !strings.HasPrefix(TopicConfigKey(b), delPrefix) && !strings.HasPrefix(PartitionStateKey(b, pb), delPrefix), "C22/etcd-delete-prefix-spares-other-topic")
}

// The delete prefix used by EtcdStore.deleteTopicOffsets is the one assumed above.
func VsymC22_Twin() {
	a := vsymTopicName("a", 2)
	vsym_Assert(vsymNeq(offsetKey(a, 0), offsetKey("ab", 0)), "C22/twin")
}

// VsymC22_EtcdDelete: through the real EtcdStore over the etcd model — deleting topic a leaves
// every etcd key of topic b (partition offsets, consumer offsets) in place.
func VsymC22_EtcdDelete() {
	if vsym_Symbolic() {
		vsym_Override("time.Now", func() time.Time { return time.Unix(1700000000, 0) })
	}
	ctx := context.Background()
	a := vsymTopicName("a", vsym_Param("la"))
	b := vsymTopicName("b", vsym_Param("lb"))
	e := newVsymEtcd()
	st := &EtcdStore{client: e.client("store"), metadata: NewInMemoryStore(ClusterMetadata{Brokers: []protocol.MetadataBroker{{NodeID: 1}}}), available: 1}
	_, errA := st.CreateTopic(ctx, TopicSpec{Name: a, NumPartitions: 1, ReplicationFactor: 1})
	_, errB := st.CreateTopic(ctx, TopicSpec{Name: b, NumPartitions: 1, ReplicationFactor: 1})
	if errA != nil || errB != nil {
		vsym_Reach("rejected")
		return
	}
	vsym_Reach("accepted")
	vsym_Assert(st.UpdateOffsets(ctx, a, 0, 6) == nil && st.UpdateOffsets(ctx, b, 0, 41) == nil, "C22/etcd-offsets-written")
	vsym_Assert(st.CommitConsumerOffset(ctx, "g", b, 0, 17, "") == nil, "C22/etcd-consumer-offset-written")
	vsym_Assert(st.DeleteTopic(ctx, a) == nil, "C22/etcd-delete-topic")
	next, err := st.NextOffset(ctx, b, 0)
	vsym_Assert(err == nil && next == 42, "C22/etcd-delete-of-one-topic-keeps-the-other-topics-offsets")
	off, _, err := st.FetchConsumerOffset(ctx, "g", b, 0)
	vsym_Assert(err == nil && off == 17, "C22/etcd-delete-of-one-topic-keeps-the-other-topics-consumer-offsets")
}
