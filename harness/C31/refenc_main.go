package main

// C07 reference encoder: Kafka v2 record batches written from the protocol description
// (KIP-98 message format), independent of the code under test.

type vsymHdr struct {
	key string
	val []byte // nil = null
}

type vsymRec struct {
	tsDelta  int64
	offDelta int32
	key      []byte // nil = null
	value    []byte
	headers  []vsymHdr
}

func vsymZigZag(v int64) uint64 { return uint64(v<<1) ^ uint64(v>>63) }

func vsymPutVarlong(b []byte, v int64) []byte {
	u := vsymZigZag(v)
	for u >= 0x80 {
		b = append(b, byte(u)|0x80)
		u >>= 7
	}
	return append(b, byte(u))
}

func vsymPutBytes(b []byte, p []byte) []byte {
	if p == nil {
		return vsymPutVarlong(b, -1)
	}
	b = vsymPutVarlong(b, int64(len(p)))
	return append(b, p...)
}

func vsymEncodeRecord(r vsymRec) []byte {
	var body []byte
	body = append(body, 0) // attributes
	body = vsymPutVarlong(body, r.tsDelta)
	body = vsymPutVarlong(body, int64(r.offDelta))
	body = vsymPutBytes(body, r.key)
	body = vsymPutBytes(body, r.value)
	body = vsymPutVarlong(body, int64(len(r.headers)))
	for _, h := range r.headers {
		body = vsymPutBytes(body, []byte(h.key))
		body = vsymPutBytes(body, h.val)
	}
	out := vsymPutVarlong(nil, int64(len(body)))
	return append(out, body...)
}

func vsymPut32(b []byte, off int, v uint32) {
	b[off], b[off+1], b[off+2], b[off+3] = byte(v>>24), byte(v>>16), byte(v>>8), byte(v)
}

func vsymPut64(b []byte, off int, v uint64) {
	vsymPut32(b, off, uint32(v>>32))
	vsymPut32(b, off+4, uint32(v))
}

// vsymEncodeBatch: 61-byte header + records; CRC field left zero (no decoder under test reads it).
func vsymEncodeBatch(baseOffset, firstTimestamp int64, recs []vsymRec) []byte {
	b := make([]byte, 61)
	var maxTs int64 = firstTimestamp
	var lastDelta int32
	for _, r := range recs {
		b = append(b, vsymEncodeRecord(r)...)
		lastDelta = r.offDelta
		_ = maxTs
	}
	vsymPut64(b, 0, uint64(baseOffset))
	vsymPut32(b, 8, uint32(len(b)-12))
	b[16] = 2
	vsymPut32(b, 23, uint32(lastDelta))
	vsymPut64(b, 27, uint64(firstTimestamp))
	vsymPut64(b, 35, uint64(firstTimestamp))
	vsymPut64(b, 43, ^uint64(0)) // producer id -1
	b[51], b[52] = 0xff, 0xff    // producer epoch -1
	vsymPut32(b, 53, ^uint32(0)) // base sequence -1
	vsymPut32(b, 57, uint32(len(recs)))
	return b
}

func vsymOptBytes(tag string) []byte {
	switch vsym_Choose(tag+"-shape", 4) {
	case 0:
		return nil
	case 1:
		return []byte{}
	case 2:
		return vsym_Bytes(tag, 1)
	}
	return vsym_Bytes(tag, 2)
}

// vsymGenRecord: every field symbolic; shape (null / empty / 1 / 2 bytes; 0 or 1 header) chosen
// by the explorer. full=false pins the byte shapes (second and later records).
func vsymGenRecord(full bool) vsymRec {
	r := vsymRec{tsDelta: vsym_Int64("tsDelta"), offDelta: vsym_Int32("offDelta")}
	vsym_Assume(vsym_And(r.offDelta >= 0, r.offDelta < 1<<14))
	if !full {
		r.key, r.value = nil, vsym_Bytes("value", 1)
		return r
	}
	r.key, r.value = vsymOptBytes("key"), vsymOptBytes("value")
	if vsym_Bool("has-header") {
		h := vsymHdr{key: vsym_String("hkey", 1)}
		if vsym_Bool("hval-null") {
			h.val = nil
		} else {
			h.val = vsym_Bytes("hval", 1)
		}
		r.headers = []vsymHdr{h}
	}
	return r
}

// vsymWrapSegment: the KAFS layout (32-byte header, body, 16-byte footer) around a body.
func vsymWrapSegment(body []byte, baseOffset, lastOffset int64) []byte {
	seg := make([]byte, 32, 32+len(body)+16)
	copy(seg, "KAFS")
	seg[5] = 1
	vsymPut64(seg, 8, uint64(baseOffset))
	seg = append(seg, body...)
	foot := make([]byte, 16)
	vsymPut64(foot, 4, uint64(lastOffset))
	copy(foot[12:], "END!")
	return append(seg, foot...)
}

func vsymSameBytes(a, b []byte) bool {
	if (a == nil) != (b == nil) {
		return false
	}
	return vsym_BytesEq(a, b)
}
