package main

import (
	"context"
	"crypto/sha256"
	"encoding/binary"
	"encoding/hex"
	"hash"
	"hash/crc32"
	"io"
	"time"

	"github.com/KafScale/platform/pkg/lfs"
	"github.com/KafScale/platform/pkg/protocol"
	"github.com/aws/aws-sdk-go-v2/service/s3"
	"github.com/twmb/franz-go/pkg/kgo"
	"github.com/twmb/franz-go/pkg/kmsg"
)

// C31 — LFS produce rewriting changes only the flagged values.
//
// A produce request of `topics` x `partitions` x `batches` x `records` uncompressed v2 batches is
// written by the reference encoder; every record has symbolic key / value / timestamp delta,
// a header set chosen by the explorer (none, other headers, the LFS_BLOB flag in any position,
// duplicates of an allow-listed header) and batch header fields are symbolic. The real
// lfsModule.rewriteProduceRecords runs over the real s3Uploader with a scripted S3 API. The
// result is parsed by the harness's own reader (written from the format description) and compared
// record by record with the input.

type vsymC31S3 struct {
	s3API
	objs  map[string][]byte
	order []string
}

func (f *vsymC31S3) PutObject(ctx context.Context, in *s3.PutObjectInput, optFns ...func(*s3.Options)) (*s3.PutObjectOutput, error) {
	data, _ := io.ReadAll(in.Body)
	_, dup := f.objs[*in.Key]
	vsym_Assert(!dup, "C31/each-flagged-record-gets-a-new-object")
	f.objs[*in.Key] = data
	f.order = append(f.order, *in.Key)
	return &s3.PutObjectOutput{}, nil
}

// abstract SHA-256 for the executor: the digest names the hasher, the hasher remembers its input
type vsymC31Hasher struct {
	id  int
	buf []byte
}

func (h *vsymC31Hasher) Write(p []byte) (int, error) { h.buf = append(h.buf, p...); return len(p), nil }
func (h *vsymC31Hasher) Sum(b []byte) []byte         { return append(b, 0xd1, byte(h.id)) }
func (h *vsymC31Hasher) Reset()                      { h.buf = nil }
func (h *vsymC31Hasher) Size() int                   { return 2 }
func (h *vsymC31Hasher) BlockSize() int              { return 64 }

// reference reader ------------------------------------------------------------------------------

func vsymC31Varint(b []byte) (int64, int) {
	v, n := binary.Varint(b)
	vsym_Assert(n > 0, "C31/rewritten-records-parse")
	return v, n
}

func vsymC31Bytes(b []byte) ([]byte, int) {
	l, n := vsymC31Varint(b)
	if l < 0 {
		return nil, n
	}
	ln := int(vsym_Concrete(l))
	vsym_Assert(n+ln <= len(b), "C31/rewritten-records-parse")
	return b[n : n+ln : n+ln], n + ln
}

type vsymC31Parsed struct {
	attrs    byte
	tsDelta  int64
	offDelta int64
	key, val []byte
	hdrs     []vsymHdr
}

func vsymC31ParseRecord(b []byte) (vsymC31Parsed, int) {
	var r vsymC31Parsed
	l, n := vsymC31Varint(b)
	total := n + int(vsym_Concrete(l))
	vsym_Assert(l >= 0 && total <= len(b), "C31/rewritten-records-parse")
	p := n
	r.attrs = b[p]
	p++
	var k int
	r.tsDelta, k = vsymC31Varint(b[p:])
	p += k
	r.offDelta, k = vsymC31Varint(b[p:])
	p += k
	r.key, k = vsymC31Bytes(b[p:])
	p += k
	r.val, k = vsymC31Bytes(b[p:])
	p += k
	nh, k := vsymC31Varint(b[p:])
	p += k
	for i := 0; i < int(vsym_Concrete(nh)); i++ {
		hk, k := vsymC31Bytes(b[p:])
		p += k
		hv, k2 := vsymC31Bytes(b[p:])
		p += k2
		r.hdrs = append(r.hdrs, vsymHdr{key: string(hk), val: hv})
	}
	vsym_Assert(p == total, "C31/record-length-prefix-is-exact")
	return r, total
}

// header sets -------------------------------------------------------------------------------------

func vsymC31HeaderSets() [][]string {
	return [][]string{
		{},
		{"LFS_BLOB"},
		{"h", "LFS_BLOB"},
		{"LFS_BLOB", "content-type"},
		{"h"},
		{"content-type", "LFS_BLOB", "content-type"},
		{"lfs_blob"},
		{"LFS_BLOB", "LFS_BLOB_ALG"},
		{"lfs_blob", "LFS_BLOB"},
	}
}

type vsymC31Rec struct {
	rec     vsymRec
	flagged bool
}

func vsymC31GenRecord(i int) vsymC31Rec {
	r := vsymRec{tsDelta: vsym_Int64("tsDelta"), offDelta: int32(i)}
	// three record shapes (key / value / timestamp-delta width vary together)
	switch vsym_Choose("record-shape", 3) {
	case 0: // one-byte varint delta
		r.key, r.value = nil, []byte{}
		vsym_Assume(vsym_And(r.tsDelta >= -64, r.tsDelta <= 63))
	case 1: // beyond 32 bits (records spanning weeks of client timestamps): six-byte varint
		r.key, r.value = []byte{}, vsym_Bytes("value", 1)
		vsym_Assume(vsym_And(r.tsDelta >= 1<<35, r.tsDelta < 1<<35+64))
	case 2:
		r.key, r.value = vsym_Bytes("key", 1), vsym_Bytes("value", 2)
		vsym_Assume(vsym_And(r.tsDelta <= -(1<<35), r.tsDelta > -(1<<35)-64))
	}
	set := vsymC31HeaderSets()[vsym_Choose("headers", vsym_Param("headersets"))]
	out := vsymC31Rec{}
	for _, name := range set {
		h := vsymHdr{key: name}
		switch name {
		case "LFS_BLOB":
			h.val = []byte{} // no client-side checksum
			out.flagged = true
		case "LFS_BLOB_ALG":
			h.val = []byte("sha256")
		default:
			h.val = vsym_Bytes("hval", 1)
		}
		r.headers = append(r.headers, h)
	}
	out.rec = r
	return out
}

func vsymC31Setup(hashers *[]*vsymC31Hasher) {
	if vsym_Symbolic() {
		vsym_Override("time.Now", func() time.Time { return time.Unix(1700000000, 0) })
		vsym_Override("crypto/sha256.New", func() hash.Hash {
			h := &vsymC31Hasher{id: len(*hashers)}
			*hashers = append(*hashers, h)
			return h
		})
		seq := 0
		vsym_Override("github.com/KafScale/platform/cmd/proxy.newLFSUUID", func() string {
			seq++
			return "uuid-" + string(rune('a'+seq))
		})
	}
}

func VsymC31_Rewrite() {
	nt, np, nb, nr := vsym_Param("topics"), vsym_Param("partitions"), vsym_Param("batches"), vsym_Param("records")
	fs3 := &vsymC31S3{objs: map[string][]byte{}}
	if nt*np*nb*nr > vsym_Param("maxrecords") {
		return // (at most this many records in the whole request: the product of shapes is too large otherwise)
	}
	var vsymC31Hashers []*vsymC31Hasher // (a local, not a package variable)
	vsymC31Setup(&vsymC31Hashers)
	alg := []string{"sha256", "none", ""}[vsym_Choose("module-alg", 3)]
	m := &lfsModule{
		s3Uploader:  &s3Uploader{bucket: "bkt", region: "r", chunkSize: 5 << 20, api: fs3},
		s3Bucket:    "bkt",
		s3Namespace: "ns",
		maxBlob:     1 << 20,
		checksumAlg: alg,
		proxyID:     "px",
		metrics:     newLfsMetrics(),
	}
	type batchIn struct {
		raw  []byte
		recs []vsymC31Rec
	}
	type partIn struct {
		batches []batchIn
		joined  []byte
	}
	req := &protocol.ProduceRequest{Acks: -1, TimeoutMillis: 1500}
	var in [][]partIn
	anyFlag := false
	for t := 0; t < nt; t++ {
		topic := kmsg.ProduceRequestTopic{Topic: "t" + string(rune('0'+t))}
		var parts []partIn
		for p := 0; p < np; p++ {
			var pin partIn
			for b := 0; b < nb; b++ {
				var recs []vsymC31Rec
				var enc []vsymRec
				for r := 0; r < nr; r++ {
					g := vsymC31GenRecord(r)
					recs = append(recs, g)
					enc = append(enc, g.rec)
					anyFlag = anyFlag || g.flagged
				}
				raw := vsymEncodeBatch(vsym_Int64("baseOffset"), vsym_Int64("firstTs"), enc)
				// the remaining header fields are arbitrary too (codec bits stay 0: uncompressed)
				vsymPut32(raw, 12, uint32(vsym_Int32("leaderEpoch")))
				at := vsym_Uint16("attrs")
				vsym_Assume(at&7 == 0)
				raw[21], raw[22] = byte(at>>8), byte(at)
				vsymPut64(raw, 35, uint64(vsym_Int64("maxTs")))
				vsymPut64(raw, 43, uint64(vsym_Int64("producerID")))
				vsymPut32(raw, 53, uint32(vsym_Int32("firstSeq")))
				vsymPut32(raw, 17, crc32.Checksum(raw[21:], crc32.MakeTable(crc32.Castagnoli)))
				pin.batches = append(pin.batches, batchIn{raw: raw, recs: recs})
				pin.joined = append(pin.joined, raw...)
			}
			topic.Partitions = append(topic.Partitions, kmsg.ProduceRequestTopicPartition{Partition: int32(p), Records: append([]byte(nil), pin.joined...)})
			parts = append(parts, pin)
		}
		req.Topics = append(req.Topics, topic)
		in = append(in, parts)
	}
	hdr := &protocol.RequestHeader{APIKey: protocol.APIKeyProduce, APIVersion: 9, CorrelationID: 7}
	res, err := m.rewriteProduceRecords(context.Background(), hdr, req)
	vsym_Assert(err == nil, "C31/well-formed-request-is-rewritten")
	vsym_Assert(res.modified == anyFlag, "C31/modified-iff-some-record-is-flagged")
	vsym_Assert(req.Acks == -1 && req.TimeoutMillis == 1500 && len(req.Topics) == nt, "C31/request-fields-unchanged")
	used := map[string]bool{}
	uploads := 0
	for t := 0; t < nt; t++ {
		vsym_Assert(req.Topics[t].Topic == "t"+string(rune('0'+t)) && len(req.Topics[t].Partitions) == np, "C31/topics-and-partitions-unchanged")
		for p := 0; p < np; p++ {
			part := req.Topics[t].Partitions[p]
			vsym_Assert(part.Partition == int32(p), "C31/topics-and-partitions-unchanged")
			buf := part.Records
			for b := 0; b < nb; b++ {
				bi := in[t][p].batches[b]
				flagged := false
				for _, r := range bi.recs {
					flagged = flagged || r.flagged
				}
				vsym_Assert(len(buf) >= 61, "C31/batch-count-unchanged")
				blen := int(vsym_Concrete(int64(int32(binary.BigEndian.Uint32(buf[8:12])))))
				vsym_Assert(blen >= 49 && 12+blen <= len(buf), "C31/batch-length-correct")
				out := buf[:12+blen]
				buf = buf[12+blen:]
				if !flagged {
					vsym_Assert(vsym_BytesEq(out, bi.raw), "C31/unflagged-batch-is-byte-identical")
					continue
				}
				// header: everything but length and CRC as it was
				vsym_Assert(vsym_BytesEq(out[0:8], bi.raw[0:8]), "C31/batch-header-fields-unchanged")
				vsym_Assert(vsym_BytesEq(out[12:17], bi.raw[12:17]), "C31/batch-header-fields-unchanged")
				vsym_Assert(vsym_BytesEq(out[21:61], bi.raw[21:61]), "C31/batch-header-fields-unchanged")
				vsym_Assert(binary.BigEndian.Uint32(out[17:21]) == crc32.Checksum(out[21:], crc32.MakeTable(crc32.Castagnoli)), "C31/batch-crc-correct")
				rb := out[61:]
				for ri, orig := range bi.recs {
					got, n := vsymC31ParseRecord(rb)
					rb = rb[n:]
					vsym_Assert(got.attrs == 0 && got.tsDelta == orig.rec.tsDelta && got.offDelta == int64(ri), "C31/record-attributes-timestamp-offset-unchanged")
					vsym_Assert(vsymSameBytes(got.key, orig.rec.key), "C31/record-key-unchanged")
					want := orig.rec.headers
					if orig.flagged {
						want = nil
						for _, h := range orig.rec.headers {
							if h.key != "LFS_BLOB" {
								want = append(want, h)
							}
						}
					}
					vsym_Assert(len(got.hdrs) == len(want), "C31/only-the-flag-header-is-lost")
					for hi := range want {
						vsym_Assert(got.hdrs[hi].key == want[hi].key && vsymSameBytes(got.hdrs[hi].val, want[hi].val), "C31/only-the-flag-header-is-lost")
					}
					if !orig.flagged {
						vsym_Assert(vsymSameBytes(got.val, orig.rec.value), "C31/unflagged-value-unchanged")
						continue
					}
					uploads++
					env, err := lfs.DecodeEnvelope(got.val)
					vsym_Assert(err == nil, "C31/flagged-value-is-a-valid-envelope")
					vsym_Assert(env.Bucket == "bkt" && env.Size == int64(len(orig.rec.value)), "C31/envelope-describes-the-object")
					body, ok := fs3.objs[env.Key]
					vsym_Assert(ok && !used[env.Key], "C31/envelope-points-at-its-own-new-object")
					used[env.Key] = true
					vsym_Assert(len(body) == len(orig.rec.value) && vsym_BytesEq(body, orig.rec.value), "C31/object-holds-exactly-the-original-value")
					if vsym_Symbolic() {
						d, derr := hex.DecodeString(env.SHA256)
						vsym_Assert(derr == nil && len(d) == 2 && d[0] == 0xd1 && int(d[1]) < len(vsymC31Hashers), "C31/envelope-sha256-is-a-digest")
						hb := vsymC31Hashers[d[1]].buf
						vsym_Assert(len(hb) == len(orig.rec.value) && vsym_BytesEq(hb, orig.rec.value), "C31/envelope-sha256-is-of-the-original-value")
					} else {
						s := sha256.Sum256(orig.rec.value)
						vsym_Assert(env.SHA256 == hex.EncodeToString(s[:]), "C31/envelope-sha256-is-of-the-original-value")
					}
				}
				vsym_Assert(len(rb) == 0, "C31/record-count-unchanged")
			}
			vsym_Assert(len(buf) == 0, "C31/batch-count-unchanged")
		}
	}
	vsym_Assert(len(fs3.objs) == uploads, "C31/one-object-per-flagged-record")
	vsym_Reach("checked")
	if anyFlag {
		vsym_Reach("rewritten")
	}
}

func VsymC31_Twin() {
	raw := vsymEncodeBatch(0, 0, []vsymRec{{value: vsym_Bytes("v", 1), headers: []vsymHdr{{key: "LFS_BLOB", val: []byte{}}}}})
	vsymPut32(raw, 17, crc32.Checksum(raw[21:], crc32.MakeTable(crc32.Castagnoli)))
	fs3 := &vsymC31S3{objs: map[string][]byte{}}
	m := &lfsModule{s3Uploader: &s3Uploader{bucket: "bkt", region: "r", chunkSize: 5 << 20, api: fs3}, s3Bucket: "bkt", maxBlob: 1 << 20, checksumAlg: "none", metrics: newLfsMetrics()}
	req := &protocol.ProduceRequest{Topics: []kmsg.ProduceRequestTopic{{Topic: "t", Partitions: []kmsg.ProduceRequestTopicPartition{{Records: raw}}}}}
	var hs []*vsymC31Hasher
	vsymC31Setup(&hs)
	res, err := m.rewriteProduceRecords(context.Background(), &protocol.RequestHeader{}, req)
	vsym_Assert(err != nil || !res.modified, "C31/twin")
}

// VsymC31_Compressed: one compressed batch (codec by parameter) of two records, the second
// flagged; contents concrete (compression loops cannot take symbolic data). Checked: the batch
// keeps its codec, length and CRC are right, and decompressing gives the expected records.
func VsymC31_Compressed() {
	codec := vsym_Param("codec")
	var hs []*vsymC31Hasher
	vsymC31Setup(&hs)
	recs := []vsymRec{
		{tsDelta: 1, offDelta: 0, key: []byte("k0"), value: []byte("plain value plain value plain value"), headers: []vsymHdr{{key: "h", val: []byte("x")}}},
		{tsDelta: 2, offDelta: 1, key: nil, value: []byte("blob blob blob blob blob blob blob"), headers: []vsymHdr{{key: "LFS_BLOB", val: []byte{}}, {key: "content-type", val: []byte("text/plain")}}},
	}
	plain := vsymEncodeBatch(40, 1000, recs)
	comp, used, err := lfsCompressRecords(kgo.CompressionCodecType(codec), plain[61:])
	vsym_Assert(err == nil && int(used) == codec, "C31/harness-compresses")
	raw := append(append([]byte(nil), plain[:61]...), comp...)
	raw[22] = byte(codec)
	vsymPut32(raw, 8, uint32(len(raw)-12))
	vsymPut32(raw, 17, crc32.Checksum(raw[21:], crc32.MakeTable(crc32.Castagnoli)))
	fs3 := &vsymC31S3{objs: map[string][]byte{}}
	m := &lfsModule{s3Uploader: &s3Uploader{bucket: "bkt", region: "r", chunkSize: 5 << 20, api: fs3}, s3Bucket: "bkt", maxBlob: 1 << 20, checksumAlg: "sha256", metrics: newLfsMetrics()}
	req := &protocol.ProduceRequest{Topics: []kmsg.ProduceRequestTopic{{Topic: "t", Partitions: []kmsg.ProduceRequestTopicPartition{{Records: raw}}}}}
	res, err := m.rewriteProduceRecords(context.Background(), &protocol.RequestHeader{}, req)
	vsym_Assert(err == nil && res.modified, "C31/compressed-batch-is-rewritten")
	out := req.Topics[0].Partitions[0].Records
	vsym_Assert(len(out) > 61 && int(binary.BigEndian.Uint32(out[8:12])) == len(out)-12, "C31/batch-length-correct")
	vsym_Assert(binary.BigEndian.Uint32(out[17:21]) == crc32.Checksum(out[21:], crc32.MakeTable(crc32.Castagnoli)), "C31/batch-crc-correct")
	vsym_Assert(int(out[22])&7 == codec && out[21] == 0, "C31/batch-keeps-its-compression-codec")
	vsym_Assert(vsym_BytesEq(out[0:8], raw[0:8]) && vsym_BytesEq(out[23:61], raw[23:61]), "C31/batch-header-fields-unchanged")
	body, err := kgo.DefaultDecompressor().Decompress(out[61:], kgo.CompressionCodecType(codec))
	vsym_Assert(err == nil, "C31/rewritten-batch-decompresses")
	r0, n := vsymC31ParseRecord(body)
	vsym_Assert(r0.tsDelta == 1 && string(r0.key) == "k0" && string(r0.val) == string(recs[0].value) && len(r0.hdrs) == 1, "C31/unflagged-value-unchanged")
	r1, n1 := vsymC31ParseRecord(body[n:])
	vsym_Assert(n+n1 == len(body), "C31/record-count-unchanged")
	env, err := lfs.DecodeEnvelope(r1.val)
	vsym_Assert(err == nil && r1.key == nil && len(r1.hdrs) == 1 && r1.hdrs[0].key == "content-type", "C31/flagged-value-is-a-valid-envelope")
	vsym_Assert(string(fs3.objs[env.Key]) == string(recs[1].value), "C31/object-holds-exactly-the-original-value")
	vsym_Reach("compressed-checked")
}
