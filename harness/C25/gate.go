package main

import (
	"context"
	"errors"
	"fmt"

	"github.com/KafScale/platform/pkg/broker"
	"github.com/KafScale/platform/pkg/protocol"
)

// C25 (gate part) — while the broker rates S3 degraded or unavailable, a produce is not
// acknowledged and nothing is appended or written; each affected partition gets a retriable code.
//
// The real monitor is driven into the state by recorded operation outcomes (no stub): one
// failure in three for "degraded", all failures for "unavailable".
func vsymDriveHealth(b *vsymBroker, state int) {
	boom := errors.New("s3 down")
	switch state {
	case 1: // degraded: error rate 1/3 >= 0.2
		b.h.s3Health.RecordOperation("upload", 0, boom)
		b.h.s3Health.RecordOperation("upload", 0, nil)
		b.h.s3Health.RecordOperation("upload", 0, nil)
	case 2: // unavailable: error rate 1 >= 0.6
		b.h.s3Health.RecordOperation("upload", 0, boom)
	}
}

func vsymRetriable(code int16) bool {
	// the Kafka protocol's retriable errors among the codes the broker uses here
	switch code {
	case protocol.REQUEST_TIMED_OUT, protocol.NOT_LEADER_OR_FOLLOWER, 56 /* KAFKA_STORAGE_ERROR */, 5 /* LEADER_NOT_AVAILABLE */ :
		return true
	}
	return false
}

func VsymC25_ProduceGate() {
	b := vsymNewBroker()
	state := vsym_Param("state")
	vsymDriveHealth(b, state)
	want := []broker.S3HealthState{broker.S3StateHealthy, broker.S3StateDegraded, broker.S3StateUnavailable}[state]
	vsym_Assert(b.h.s3Health.State() == want, "C25/monitor-driven-into-state")
	acks := int16(1)
	if vsym_Bool("acks-all") {
		acks = -1
	}
	tps := []vsymTP{{"t0", 0}, {"t0", 1}, {"t1", 0}}
	codes := b.vsymProduce(vsymProduceReq(acks, tps, vsym_Bytes("payload", 1)))
	vsym_Reach("replied")
	for _, tp := range tps {
		code, ok := codes[tp]
		vsym_Assert(ok, "C25/every-partition-answered")
		if state == 0 {
			vsym_Assert(code == 0, "C25/healthy-produce-acknowledged")
			continue
		}
		vsym_Assert(code != 0, "C25/no-ack-while-unhealthy")
		vsym_Assert(!b.appended(tp), "C25/nothing-appended-while-unhealthy")
		// Known finding: the code for "unavailable" is UNKNOWN_SERVER_ERROR, which clients do not retry.
		vsym_Known("C25-unavailable-code-not-retriable", state == 2)
		vsym_Assert(vsymRetriable(code), "C25/backpressure-code-is-retriable")
	}
	if state != 0 {
		vsym_Assert(len(b.s3.writes) == 0, "C25/no-s3-write-while-unhealthy")
	}
}

func VsymC25_GateTwin() {
	b := vsymNewBroker()
	codes := b.vsymProduce(vsymProduceReq(1, []vsymTP{{"t0", 0}}, vsym_Bytes("payload", 1)))
	vsym_Assert(codes[vsymTP{"t0", 0}] != 0, "C25/gate-twin")
}

// Fetch side: data is produced while healthy, then the rating turns bad: no fetch returns data.
func VsymC25_FetchGate() {
	b := vsymNewBroker()
	tps := []vsymTP{{"t0", 0}, {"t1", 0}}
	codes := b.vsymProduce(vsymProduceReq(1, tps, vsym_Bytes("payload", 1)))
	for _, tp := range tps {
		vsym_Assert(codes[tp] == 0, "C25/healthy-produce-acknowledged")
	}
	state := vsym_Param("state")
	if state != 0 {
		// enough bad samples to outweigh the successful uploads above
		for i := 0; i < 8; i++ {
			vsymDriveHealth(b, state)
		}
	}
	st := b.h.s3Health.State()
	got := b.vsymFetch(vsymFetchReq(tps, 0))
	vsym_Reach("fetched")
	for _, tp := range tps {
		f, ok := got[tp]
		vsym_Assert(ok, "C25/every-partition-answered")
		if st == broker.S3StateHealthy {
			vsym_Assert(f.code == 0 && len(f.data) > 0, "C25/healthy-fetch-returns-data")
			continue
		}
		vsym_Assert(len(f.data) == 0 && f.code != 0, "C25/no-fetch-data-while-unhealthy")
		vsym_Known("C25-unavailable-code-not-retriable", st == broker.S3StateUnavailable)
		vsym_Assert(vsymRetriable(f.code), "C25/backpressure-code-is-retriable")
	}
}

// The rating is consulted for every partition: once an upload failure of an earlier partition
// of the same request has turned the rating bad, later partitions are not acknowledged.
func VsymC25_GateRechecked() {
	b := vsymNewBroker()
	b.s3.failUp = func(key string) bool { return len(key) > 0 && containsStr(key, "/t0/0/") }
	if vsym_Bool("failure-is-a-timeout") {
		// S3 timeouts surface as errors wrapping context.DeadlineExceeded
		b.s3.failErr = fmt.Errorf("vsym: s3 put timed out: %w", context.DeadlineExceeded)
	}
	tps := []vsymTP{{"t0", 0}, {"t0", 1}, {"t1", 0}}
	codes := b.vsymProduce(vsymProduceReq(1, tps, vsym_Bytes("payload", 1)))
	vsym_Reach("rechecked")
	vsym_Assert(codes[tps[0]] != 0, "C25/failed-upload-not-acknowledged")
	// the failure, whatever its kind, is part of the health window
	vsym_Assert(b.h.s3Health.Snapshot().ErrorRate > 0, "C25/every-s3-failure-counts-towards-the-rating")
	if b.h.s3Health.State() != broker.S3StateHealthy {
		vsym_Assert(codes[tps[1]] != 0 && codes[tps[2]] != 0, "C25/no-ack-once-rating-turned-bad-mid-request")
		vsym_Assert(!b.appended(tps[1]) && !b.appended(tps[2]), "C25/nothing-appended-once-rating-turned-bad")
	}
}

func containsStr(s, sub string) bool {
	for i := 0; i+len(sub) <= len(s); i++ {
		if s[i:i+len(sub)] == sub {
			return true
		}
	}
	return false
}
