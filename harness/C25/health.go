package broker

import (
	"errors"
	"time"
)

// C25 (rating part) — the S3 health rating depends only on the error rate and average latency of
// the samples inside the window, and higher error rates or latencies never give a better rating.
//
// Virtual time: time.Now pinned under the executor; time advances by ageing the sample
// timestamps the monitor stored (band of 1 ms around the window edge kept clear for replay).

var vsymC25Cfgs = []S3HealthConfig{
	{}, // all defaults: 1 min window, 500 ms / 3 s, 0.2 / 0.6
	{Window: 10 * time.Second, LatencyWarn: 100 * time.Millisecond, LatencyCrit: time.Second, ErrorWarn: 0.5, ErrorCrit: 1.0},
	{Window: time.Minute, LatencyWarn: 2 * time.Second, LatencyCrit: 2 * time.Second, ErrorWarn: 0.34, ErrorCrit: 0.67},
}

func vsymC25Rank(s S3HealthState) int {
	switch s {
	case S3StateHealthy:
		return 0
	case S3StateDegraded:
		return 1
	case S3StateUnavailable:
		return 2
	}
	return -1
}

func vsymC25Age(m *S3HealthMonitor, ages []int64, d int64) {
	for i := range m.samples {
		m.samples[i].ts = m.samples[i].ts.Add(-time.Duration(d))
	}
	w := int64(m.cfg.Window)
	for i := range ages {
		ages[i] += d
		vsym_Assume(vsym_Or(ages[i] < w-int64(time.Millisecond), ages[i] > w+int64(time.Millisecond)))
	}
}

// reference rating of the samples younger than the window
func vsymC25Ref(cfg S3HealthConfig, lat []int64, errs []bool, ages []int64) int {
	var total, n, bad int64
	for i := range lat {
		if ages[i] < int64(cfg.Window) {
			total += lat[i]
			n++
			if errs[i] {
				bad++
			}
		}
	}
	if n == 0 {
		return 0
	}
	avg := total / n
	rate := float64(bad) / float64(n)
	switch {
	case avg >= int64(cfg.LatencyCrit) || rate >= cfg.ErrorCrit:
		return 2
	case avg >= int64(cfg.LatencyWarn) || rate >= cfg.ErrorWarn:
		return 1
	}
	return 0
}

func VsymC25_Rating() {
	vsymPinClock()
	n := vsym_Param("n")
	m := NewS3HealthMonitor(vsymC25Cfgs[vsym_Param("cfg")])
	cfg := m.cfg
	var lat, ages []int64
	var errs []bool
	boom := errors.New("s3 failure")
	for i := 0; i < n; i++ {
		if i > 0 {
			d := vsym_Int64("dt")
			vsym_Assume(d >= 0 && d <= int64(2*time.Minute))
			vsymC25Age(m, ages, d)
		}
		l := vsym_Int64("latency")
		vsym_Assume(l >= 0 && l <= int64(time.Hour))
		e := vsym_Bool("err")
		var err error
		if e {
			err = boom
		}
		m.RecordOperation("upload", time.Duration(l), err)
		lat, errs, ages = append(lat, l), append(errs, e), append(ages, 0)
	}
	d := vsym_Int64("dt")
	vsym_Assume(d >= 0 && d <= int64(2*time.Minute))
	vsymC25Age(m, ages, d)
	got := vsymC25Rank(m.State())
	vsym_Reach("rated")
	vsym_Assert(got == vsymC25Ref(cfg, lat, errs, ages), "C25/rating-is-function-of-window-error-rate-and-latency")
}

// two monitors fed pointwise worse samples: the second one's rating is never better
func VsymC25_Monotone() {
	vsymPinClock()
	n := vsym_Param("n")
	a := NewS3HealthMonitor(vsymC25Cfgs[vsym_Param("cfg")])
	b := NewS3HealthMonitor(vsymC25Cfgs[vsym_Param("cfg")])
	boom := errors.New("s3 failure")
	for i := 0; i < n; i++ {
		l := vsym_Int64("latency")
		extra := vsym_Int64("extra")
		vsym_Assume(l >= 0 && l <= int64(time.Hour) && extra >= 0 && extra <= int64(time.Hour))
		e := vsym_Bool("err")
		e2 := vsym_Bool("err-b")
		var ea, eb error
		if e {
			ea, eb = boom, boom
		} else if e2 {
			eb = boom
		}
		a.RecordOperation("upload", time.Duration(l), ea)
		b.RecordOperation("upload", time.Duration(l+extra), eb)
	}
	vsym_Reach("compared")
	vsym_Assert(vsymC25Rank(b.State()) >= vsymC25Rank(a.State()), "C25/worse-samples-never-rate-better")
}

func VsymC25_Twin() {
	vsymPinClock()
	m := NewS3HealthMonitor(S3HealthConfig{})
	m.RecordOperation("upload", time.Duration(vsym_Int64("l")), nil)
	vsym_Assert(m.State() == S3StateHealthy, "C25/twin")
}
