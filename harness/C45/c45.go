package idoc

import (
	"encoding/xml"
	"io"
	"strings"
)

// C45 — IDoc explode emits each element once with consistent routing.
//
// The harness builds a well-formed element tree (shape, names, texts and routing lists chosen by
// the explorer), serialises it to XML and calls the real ExplodeXML. Under the executor
// encoding/xml's tokenizer (reflection-free but table- and state-heavy) is replaced by a token
// source that replays the tree's balanced token sequence; natively the real tokenizer reads the
// serialised text. Oracle: computed from the tree by the statement's rules.

type vsymNode struct {
	name     string
	text     string
	parent   int
	children []int
}

var (
	vsymNames = []string{"A", "B"}
	vsymTexts = []string{"", " x ", " "}
)

func vsymBuildTree(n int) []vsymNode {
	nodes := []vsymNode{{name: vsymNames[vsym_Choose("name", len(vsymNames))], text: "", parent: -1}}
	path := []int{0} // open elements, root first
	for i := 1; i < n; i++ {
		depth := 1 + vsym_Choose("attach", len(path)) // attach under path[depth-1]
		path = path[:depth]
		p := path[depth-1]
		nodes = append(nodes, vsymNode{name: vsymNames[vsym_Choose("name", len(vsymNames))], text: vsymTexts[vsym_Choose("text", len(vsymTexts))], parent: p})
		nodes[p].children = append(nodes[p].children, i)
		path = append(path, i)
	}
	return nodes
}

func vsymSerialise(nodes []vsymNode, i int, sb *strings.Builder, toks *[]xml.Token, closing *[]int) {
	nd := nodes[i]
	sb.WriteString("<" + nd.name + ">")
	*toks = append(*toks, xml.StartElement{Name: xml.Name{Local: nd.name}})
	if nd.text != "" {
		sb.WriteString(nd.text)
		*toks = append(*toks, xml.CharData([]byte(nd.text)))
	}
	for _, c := range nd.children {
		vsymSerialise(nodes, c, sb, toks, closing)
	}
	sb.WriteString("</" + nd.name + ">")
	*toks = append(*toks, xml.EndElement{Name: xml.Name{Local: nd.name}})
	*closing = append(*closing, i)
}

func vsymListed(list []string, name string) bool {
	for _, v := range list {
		if strings.TrimSpace(v) == name {
			return true
		}
	}
	return false
}

func vsymPathOf(nodes []vsymNode, i int) string {
	if nodes[i].parent < 0 {
		return nodes[i].name
	}
	return vsymPathOf(nodes, nodes[i].parent) + "/" + nodes[i].name
}

func vsymCheckRoute(label string, got []Segment, list []string, nodes []vsymNode, closing []int) {
	k := 0
	for _, i := range closing {
		if vsymListed(list, nodes[i].name) {
			vsym_Assert(k < len(got) && got[k].Name == nodes[i].name && got[k].Path == vsymPathOf(nodes, i), label)
			k++
		}
	}
	vsym_Assert(k == len(got), label)
}

func VsymC45_Explode() {
	n := vsym_Param("n")
	nodes := vsymBuildTree(n)
	cfg := ExplodeConfig{
		ItemSegments:    [][]string{nil, {"A"}, {"A", "B"}}[vsym_Choose("items", 3)],
		PartnerSegments: [][]string{nil, {"A"}, {"B"}}[vsym_Choose("partners", 3)],
		StatusSegments:  [][]string{nil, {"B"}}[vsym_Choose("statuses", 2)],
		DateSegments:    [][]string{nil, {" A ", ""}}[vsym_Choose("dates", 2)],
	}
	var sb strings.Builder
	var toks []xml.Token
	var closing []int
	vsymSerialise(nodes, 0, &sb, &toks, &closing)
	if vsym_Symbolic() {
		pos := 0
		vsym_Override("(*encoding/xml.Decoder).Token", func(d *xml.Decoder) (xml.Token, error) {
			if pos >= len(toks) {
				return nil, io.EOF
			}
			pos++
			return toks[pos-1], nil
		})
		vsym_Override("encoding/xml.NewDecoder", func(r io.Reader) *xml.Decoder { return &xml.Decoder{} })
	}
	res, err := ExplodeXML([]byte(sb.String()), cfg)
	vsym_Assert(err == nil, "C45/well-formed-document-accepted")
	vsym_Reach("exploded")
	// one entry per element, in closing order
	vsym_Assert(len(res.Segments) == len(nodes), "C45/one-segment-per-element")
	routedAny := func(name string) bool {
		return vsymListed(cfg.ItemSegments, name) || vsymListed(cfg.PartnerSegments, name) || vsymListed(cfg.StatusSegments, name) || vsymListed(cfg.DateSegments, name)
	}
	for k, i := range closing {
		seg := res.Segments[k]
		vsym_Assert(seg.Name == nodes[i].name && seg.Path == vsymPathOf(nodes, i), "C45/segments-in-closing-order")
		vsym_Assert(seg.Value == strings.TrimSpace(nodes[i].text), "C45/segment-value")
		if routedAny(nodes[i].name) {
			// fields = direct children with non-blank text (last one wins for a repeated name)
			want := map[string]string{}
			for _, c := range nodes[i].children {
				if t := strings.TrimSpace(nodes[c].text); t != "" {
					want[nodes[c].name] = t
				}
			}
			vsym_Assert(len(seg.Fields) == len(want), "C45/fields-are-direct-children-with-text")
			for name, v := range want {
				vsym_Assert(seg.Fields[name] == v, "C45/fields-are-direct-children-with-text")
			}
		}
	}
	vsymCheckRoute("C45/items-hold-exactly-configured-segments", res.Items, cfg.ItemSegments, nodes, closing)
	vsymCheckRoute("C45/partners-hold-exactly-configured-segments", res.Partners, cfg.PartnerSegments, nodes, closing)
	vsymCheckRoute("C45/statuses-hold-exactly-configured-segments", res.Statuses, cfg.StatusSegments, nodes, closing)
	vsymCheckRoute("C45/dates-hold-exactly-configured-segments", res.Dates, cfg.DateSegments, nodes, closing)
	vsym_Assert(res.Header.Root == nodes[0].name, "C45/header-root")
}

func VsymC45_Twin() {
	if vsym_Symbolic() {
		toks := []xml.Token{xml.StartElement{Name: xml.Name{Local: "A"}}, xml.EndElement{Name: xml.Name{Local: "A"}}}
		pos := 0
		vsym_Override("(*encoding/xml.Decoder).Token", func(d *xml.Decoder) (xml.Token, error) {
			if pos >= len(toks) {
				return nil, io.EOF
			}
			pos++
			return toks[pos-1], nil
		})
		vsym_Override("encoding/xml.NewDecoder", func(r io.Reader) *xml.Decoder { return &xml.Decoder{} })
	}
	res, _ := ExplodeXML([]byte("<A></A>"), ExplodeConfig{})
	vsym_Assert(len(res.Segments) != 1 || vsym_Bool("z"), "C45/twin")
}
