package main

import (
	"context"
	"errors"

	"github.com/KafScale/platform/pkg/storage"
)

// C44 — reads through an S3 read replica match the primary.

type vsymBucket struct {
	objs     map[string][]byte
	fail     map[string]bool
	calls    []string
	failList bool
}

func newVsymBucket() *vsymBucket {
	return &vsymBucket{objs: map[string][]byte{}, fail: map[string]bool{}}
}

func (b *vsymBucket) put(key string, body []byte) error {
	b.calls = append(b.calls, "put:"+key)
	b.objs[key] = body
	return nil
}
func (b *vsymBucket) del(key string) error {
	b.calls = append(b.calls, "del:"+key)
	delete(b.objs, key)
	return nil
}
func (b *vsymBucket) get(key string, rng *storage.ByteRange) ([]byte, error) {
	b.calls = append(b.calls, "get:"+key)
	if b.fail[key] {
		return nil, errors.New("bucket unavailable")
	}
	d, ok := b.objs[key]
	if !ok {
		return nil, storage.ErrNotFound
	}
	if rng != nil {
		if rng.Start < 0 || rng.Start >= int64(len(d)) {
			return nil, errors.New("invalid range")
		}
		end := rng.End
		if end >= int64(len(d)) {
			end = int64(len(d)) - 1
		}
		return append([]byte(nil), d[rng.Start:end+1]...), nil
	}
	return append([]byte(nil), d...), nil
}
func (b *vsymBucket) UploadSegment(ctx context.Context, key string, body []byte) error {
	return b.put(key, body)
}
func (b *vsymBucket) UploadIndex(ctx context.Context, key string, body []byte) error {
	return b.put(key, body)
}
func (b *vsymBucket) DeleteSegment(ctx context.Context, key string) error { return b.del(key) }
func (b *vsymBucket) DeleteIndex(ctx context.Context, key string) error   { return b.del(key) }
func (b *vsymBucket) DownloadSegment(ctx context.Context, key string, rng *storage.ByteRange) ([]byte, error) {
	return b.get(key, rng)
}
func (b *vsymBucket) DownloadIndex(ctx context.Context, key string) ([]byte, error) {
	return b.get(key, nil)
}
func (b *vsymBucket) ListSegments(ctx context.Context, prefix string) ([]storage.S3Object, error) {
	b.calls = append(b.calls, "list:"+prefix)
	if b.failList {
		return nil, errors.New("bucket unavailable")
	}
	var out []storage.S3Object
	for k, v := range b.objs {
		out = append(out, storage.S3Object{Key: k, Size: int64(len(v))})
	}
	return out, nil
}
func (b *vsymBucket) EnsureBucket(ctx context.Context) error {
	b.calls = append(b.calls, "ensure")
	return nil
}

// replica state per object: 0 missing, 1 failing, 2 same bytes, 3 other bytes (stale copy)
func VsymC44_Read() {
	ctx := context.Background()
	primary, replica := newVsymBucket(), newVsymBucket()
	pstate := vsym_Param("pstate") // 0 primary has the object, 1 primary does not (deleted), 2 primary has it but the read fails transiently
	rstate := vsym_Param("rstate")
	useIndex := vsym_Param("index") == 1
	ranged := vsym_Param("ranged") == 1
	data := vsym_Bytes("primary", 3)
	if pstate == 0 || pstate == 2 {
		primary.objs["k"] = data
	}
	if pstate == 2 {
		primary.fail["k"] = true
	}
	other := vsym_Bytes("replica", 3)
	switch rstate {
	case 1:
		replica.fail["k"] = true
	case 2:
		replica.objs["k"] = append([]byte(nil), data...)
	case 3:
		replica.objs["k"] = other
	}
	d := newDualS3Client(primary, replica)
	var rng *storage.ByteRange
	if ranged && !useIndex {
		// any range over (and just past) the 3-byte object: start 0..3 (3 is out of range), end start..start+2 (clamped by the store)
		rs := vsym_Choose("rangeStart", 4)
		rng = &storage.ByteRange{Start: int64(rs), End: int64(rs + vsym_Choose("rangeExtra", 3))}
	}
	var got, want []byte
	var err, werr error
	if useIndex {
		got, err = d.DownloadIndex(ctx, "k")
		want, werr = primary.get("k", nil)
	} else {
		got, err = d.DownloadSegment(ctx, "k", rng)
		want, werr = primary.get("k", rng)
	}
	vsym_Reach("read")
	// Known finding: a replica copy whose presence or bytes differ from the primary's is returned unverified.
	stale := rstate == 3 && !vsym_BytesEq(other, data)
	phantom := pstate == 1 && (rstate == 2 || rstate == 3)
	// (a replica that answers while the primary's read fails serves the same bytes only if it is
	// an exact copy: otherwise the known finding's class)
	served := pstate == 2 && rstate == 3
	if pstate == 2 && rstate == 2 {
		// an exact replica copy may be served although the primary is unreachable
		exp := data
		if rng != nil {
			if rng.Start >= 3 {
				vsym_Assert(err != nil, "C44/read-equals-primary")
				return
			}
			end := rng.End
			if end > 2 {
				end = 2
			}
			exp = data[rng.Start : end+1]
		}
		vsym_Assert(err != nil || (len(got) == len(exp) && vsym_BytesEq(got, exp)), "C44/read-equals-primary")
		return
	}
	vsym_Known("C44-stale-replica-copy", vsym_Or(stale, vsym_Or(phantom, served)))
	vsym_Assert((err == nil) == (werr == nil) && (err != nil || vsym_BytesEq(got, want)), "C44/read-equals-primary")
	if err != nil && werr != nil {
		// callers distinguish "the object does not exist" from "the store could not be read"
		vsym_Assert(errors.Is(err, storage.ErrNotFound) == errors.Is(werr, storage.ErrNotFound), "C44/read-error-class-equals-primary")
	}
}

func VsymC44_WritesGoToPrimary() {
	ctx := context.Background()
	primary, replica := newVsymBucket(), newVsymBucket()
	d := newDualS3Client(primary, replica)
	body := vsym_Bytes("body", 2)
	_ = d.UploadSegment(ctx, "s", body)
	_ = d.UploadIndex(ctx, "i", body)
	objs, _ := d.ListSegments(ctx, "")
	vsym_Assert(len(objs) == 2, "C44/list-from-primary")
	_ = d.DeleteSegment(ctx, "s")
	_ = d.DeleteIndex(ctx, "i")
	_ = d.EnsureBucket(ctx)
	vsym_Reach("writes")
	vsym_Assert(len(replica.calls) == 0 && len(replica.objs) == 0, "C44/replica-untouched-by-writes")
	vsym_Assert(len(primary.calls) == 6 && len(primary.objs) == 0, "C44/primary-sees-all-writes")
}

// listings come from the primary only: a failed primary listing is an error, never the replica's view
func VsymC44_List() {
	ctx := context.Background()
	primary, replica := newVsymBucket(), newVsymBucket()
	primary.objs["a"], primary.objs["b"] = []byte{1}, []byte{2}
	replica.objs["a"] = []byte{1} // the replica lags: it lacks the newest object
	primary.failList = vsym_Bool("primary-listing-fails")
	objs, err := newDualS3Client(primary, replica).ListSegments(ctx, "")
	vsym_Reach("listed")
	if primary.failList {
		vsym_Assert(err != nil, "C44/failed-primary-listing-is-an-error")
	} else {
		vsym_Assert(err == nil && len(objs) == 2, "C44/list-from-primary")
	}
}

func VsymC44_Twin() {
	primary, replica := newVsymBucket(), newVsymBucket()
	primary.objs["k"] = vsym_Bytes("p", 1)
	got, err := newDualS3Client(primary, replica).DownloadIndex(context.Background(), "k")
	vsym_Assert(err != nil || len(got) != 1, "C44/twin")
}
