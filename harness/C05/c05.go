package storage

// C05 — the durable high watermark never regresses or runs ahead of S3.
//
// The produce world of harness/stor/conc.go with the metadata store's next_offset mirrored:
// every onFlush callback (the closure cmd/broker installs calls Store.UpdateOffsets with the
// artifact's last offset) is a scheduling point; after each publication and at quiescence the
// published value is compared with what complete (segment + index) S3 objects hold.
func VsymC05_Watermark() {
	// shapes as in C01: {producers, upload failures (0 = any number), preemption bound, S3-calls-only, delay bound}
	shape := [][5]int{{2, 1, 2, 0, 0}, {3, 0, 0, 1, 2}, {3, 1, 0, 1, 2}, {2, 2, 3, 0, 0}, {2, 0, 0, 0, 4}, {3, 1, 0, 0, 3}}[vsym_Param("shape")]
	w := vsymNewConcWorld(true)
	w.publishEvents = true
	w.s3EventsOnly = shape[3] == 1
	w.s3.budget = shape[1]
	vsym_PreemptionBound(shape[2])
	vsym_DelayBound(shape[4])
	vsym_ExploreEvents()
	w.checkAtPublish = true
	for i := 0; i < shape[0]; i++ {
		vsym_Go(w.producer(i, "C05"))
	}
	vsym_Join()
	vsym_Reach("quiescent")
	w.checkWatermarks()
	vsym_Assert(w.storeNext <= w.maxDurableEnd(), "C05/watermark-not-ahead-of-s3")
}

func VsymC05_Twin() {
	w := vsymNewConcWorld(false)
	vsym_Go(w.producer(0, "C05"))
	vsym_Join()
	vsym_Assert(len(w.published) == 0, "C05/twin")
}
