package decoder

import "bytes"

// C34 — segment decoders never crash on any bytes (iceberg processor).

func VsymC34_DecodeRecord() {
	n := vsym_Param("n")
	b := vsym_Bytes("rec", n)
	vsym_AllocBudget(64*n + 4096)
	_, err := decodeRecord(bytes.NewReader(b), 0, 0, "t", 0)
	if err == nil {
		vsym_Reach("ok")
	} else {
		vsym_Reach("err")
	}
}

// A batch whose 61-byte header is arbitrary (as accepted by the broker: it only reads
// batchLength, lastOffsetDelta and recordCount) followed by n arbitrary record bytes.
func VsymC34_BatchRecords() {
	n := vsym_Param("n")
	b := vsym_Bytes("batch", 61+n)
	vsym_AllocBudget(200*(61+n) + 4096)
	_, err := decodeBatchRecords(b, "t", 0)
	if err == nil {
		vsym_Reach("ok")
	} else {
		vsym_Reach("err")
	}
}

func VsymC34_Segment() {
	n := vsym_Param("n")
	b := vsym_Bytes("seg", 48+n)
	b[0], b[1], b[2], b[3] = 'K', 'A', 'F', 'S'
	vsym_AllocBudget(200*(48+n) + 4096)
	_, err := decodeSegment(b, "t", 0)
	if err == nil {
		vsym_Reach("ok")
	} else {
		vsym_Reach("err")
	}
}

func VsymC34_ParseIndex() {
	n := vsym_Param("n")
	b := vsym_Bytes("idx", n)
	if n >= 6 {
		b[0], b[1], b[2], b[3], b[4], b[5] = 'I', 'D', 'X', 0, 0, 1
	}
	vsym_AllocBudget(64*n + 4096)
	_, err := parseIndex(b)
	if err == nil {
		vsym_Reach("ok")
	} else {
		vsym_Reach("err")
	}
}

func VsymC34_Twin() {
	b := vsym_Bytes("rec", 8)
	_, err := decodeRecord(bytes.NewReader(b), 0, 0, "t", 0)
	if err == nil {
		vsym_Assert(false, "C34/twin")
	}
}
