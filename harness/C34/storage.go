package storage

import "bytes"

// C34 — the broker-side scanners used by point-in-time restore never crash on any bytes.

func VsymC34_ScanRecord() {
	n := vsym_Param("n")
	b := vsym_Bytes("rec", n)
	vsym_AllocBudget(64*n + 4096)
	_, _, err := scanRecord(bytes.NewReader(b))
	if err == nil {
		vsym_Reach("ok")
	} else {
		vsym_Reach("err")
	}
}

func VsymC34_Truncate() {
	n := vsym_Param("n")
	b := vsym_Bytes("batch", 61+n)
	cutoff := vsym_Int64("cutoff")
	vsym_AllocBudget(200*(61+n) + 4096)
	_, _, _, err := truncateRecordBatchToTimestamp(b, cutoff)
	if err == nil {
		vsym_Reach("ok")
	} else {
		vsym_Reach("err")
	}
}

func VsymC34_Collect() {
	n := vsym_Param("n")
	b := vsym_Bytes("seg", 48+n)
	b[0], b[1], b[2], b[3] = 'K', 'A', 'F', 'S'
	cutoff := vsym_Int64("cutoff")
	vsym_AllocBudget(200*(48+n) + 4096)
	_, err := collectRecoverableBatches(b, cutoff)
	if err == nil {
		vsym_Reach("ok")
	} else {
		vsym_Reach("err")
	}
}

func VsymC34_ParseIndexStorage() {
	n := vsym_Param("n")
	b := vsym_Bytes("idx", n)
	if n >= 6 {
		b[0], b[1], b[2], b[3], b[4], b[5] = 'I', 'D', 'X', 0, 0, 1
	}
	vsym_AllocBudget(64*n + 4096)
	_, err := ParseIndex(b)
	if err == nil {
		vsym_Reach("ok")
	} else {
		vsym_Reach("err")
	}
}
