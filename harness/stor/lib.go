package storage

import (
	"context"
	"encoding/binary"
	"errors"
	"sort"
	"strings"
	"sync"
)

// Shared harness library for the storage properties (C01–C06, C08): an in-memory model of the
// S3Client interface with solver-controlled faults, a Kafka v2 batch builder and the produce
// acknowledgement rule of cmd/broker's handleProduce (append; flush; ack iff both succeeded).

var vsymErrS3 = errors.New("vsym: injected S3 failure")

type vsymS3 struct {
	objs    map[string][]byte
	faulty  bool // every upload asks the solver whether it fails
	budget  int  // when > 0: at most this many injected failures
	failed  int
	puts    []string // keys written, in order
	gets    []string
	onCall  func(op, key string) // scheduling / monitoring hook
	crashed bool                 // after a crash nothing is written any more
	failOp  string               // when set: the next call of this operation fails (once)
	mu      sync.Mutex           // native runs only: segment and index are uploaded from different goroutines
}

func (s *vsymS3) lock() func() {
	if vsym_Symbolic() {
		return func() {}
	}
	s.mu.Lock()
	return s.mu.Unlock
}

func newVsymS3() *vsymS3 { return &vsymS3{objs: map[string][]byte{}} }

func (s *vsymS3) call(op, key string) {
	if s.onCall != nil {
		s.onCall(op, key)
	}
}

func (s *vsymS3) put(op, key string, body []byte) error {
	s.call(op, key)
	defer s.lock()()
	if s.crashed {
		return vsymErrS3
	}
	if s.failOp == op {
		s.failOp = ""
		return vsymErrS3
	}
	if s.faulty && (s.budget == 0 || s.failed < s.budget) && vsym_Bool("fail:"+op) {
		s.failed++
		return vsymErrS3
	}
	s.objs[key] = append([]byte(nil), body...)
	s.puts = append(s.puts, key)
	return nil
}

func (s *vsymS3) UploadSegment(ctx context.Context, key string, body []byte) error {
	return s.put("upload-segment", key, body)
}
func (s *vsymS3) UploadIndex(ctx context.Context, key string, body []byte) error {
	return s.put("upload-index", key, body)
}
func (s *vsymS3) DeleteSegment(ctx context.Context, key string) error {
	s.call("delete", key)
	defer s.lock()()
	delete(s.objs, key)
	return nil
}
func (s *vsymS3) DeleteIndex(ctx context.Context, key string) error {
	s.call("delete", key)
	defer s.lock()()
	delete(s.objs, key)
	return nil
}
func (s *vsymS3) DownloadSegment(ctx context.Context, key string, rng *ByteRange) ([]byte, error) {
	s.call("download-segment", key)
	defer s.lock()()
	s.gets = append(s.gets, key)
	d, ok := s.objs[key]
	if !ok {
		return nil, ErrNotFound
	}
	if rng == nil {
		return append([]byte(nil), d...), nil
	}
	if rng.Start < 0 || rng.Start >= int64(len(d)) || rng.End < rng.Start {
		return nil, errors.New("vsym: invalid range")
	}
	end := rng.End
	if end >= int64(len(d)) {
		end = int64(len(d)) - 1
	}
	return append([]byte(nil), d[rng.Start:end+1]...), nil
}
func (s *vsymS3) DownloadIndex(ctx context.Context, key string) ([]byte, error) {
	s.call("download-index", key)
	defer s.lock()()
	d, ok := s.objs[key]
	if !ok {
		return nil, ErrNotFound
	}
	return append([]byte(nil), d...), nil
}
func (s *vsymS3) ListSegments(ctx context.Context, prefix string) ([]S3Object, error) {
	s.call("list", prefix)
	defer s.lock()()
	keys := make([]string, 0, len(s.objs))
	for k := range s.objs {
		if strings.HasPrefix(k, prefix) {
			keys = append(keys, k)
		}
	}
	sort.Strings(keys)
	out := make([]S3Object, 0, len(keys))
	for _, k := range keys {
		out = append(out, S3Object{Key: k, Size: int64(len(s.objs[k]))})
	}
	return out, nil
}
func (s *vsymS3) EnsureBucket(ctx context.Context) error { return nil }

// vsymBatch builds a Kafka v2 record batch frame of 61+len(payload) bytes: the header says
// lastOffsetDelta = count-1, recordCount = count, batchLength = frame-12; payload bytes are the
// caller's (symbolic or not). The base offset field is zero (the broker patches it).
func vsymBatch(count int32, payload []byte) []byte {
	b := make([]byte, 61+len(payload))
	binary.BigEndian.PutUint32(b[8:12], uint32(len(b)-12))
	b[16] = 2 // magic
	binary.BigEndian.PutUint32(b[23:27], uint32(count-1))
	binary.BigEndian.PutUint32(b[57:61], uint32(count))
	copy(b[61:], payload)
	return b
}

type vsymAck struct {
	base, last int64
	bytes      []byte // the batch as acknowledged (base offset patched)
}

// vsymProduce mirrors handleProduce's per-partition rule with flush-on-ack and acks != 0:
// decode, append, flush; acknowledged iff all three succeed.
func vsymProduce(ctx context.Context, l *PartitionLog, records []byte) (vsymAck, bool) {
	return vsymProduceAs(ctx, l, records, "")
}

// vsymProduceAs names the producer: its steps become scheduling events (append:<who>,
// flush:<who>) whose global order a native replay follows.
func vsymProduceAs(ctx context.Context, l *PartitionLog, records []byte, who string) (vsymAck, bool) {
	batch, err := NewRecordBatchFromBytes(records)
	if err != nil {
		return vsymAck{}, false
	}
	if who != "" && who[0] != '~' {
		vsym_Event("append:" + who)
	}
	res, err := l.AppendBatch(ctx, batch)
	if err != nil {
		return vsymAck{}, false
	}
	if who != "" && who[0] != '~' {
		vsym_Event("flush:" + who) // (names starting with '~': no producer-step events, S3 calls only)
	}
	err = l.Flush(ctx)
	if err != nil {
		return vsymAck{}, false
	}
	return vsymAck{base: res.BaseOffset, last: res.LastOffset, bytes: append([]byte(nil), batch.Bytes...)}, true
}

func vsymNewLog(s3 S3Client, start int64, cfg PartitionLogConfig, onFlush func(context.Context, *SegmentArtifact)) *PartitionLog {
	return NewPartitionLog("ns", "t", 0, start, s3, nil, cfg, onFlush, nil, nil)
}

// vsymDurable reports whether some segment object that has its index object in the fake S3
// covers [base,last] according to the real footer/index parsers and contains the batch bytes.
func vsymDurable(s *vsymS3, a vsymAck) bool {
	defer s.lock()()
	for key, seg := range s.objs {
		if !strings.HasSuffix(key, ".kfs") {
			continue
		}
		idx, ok := s.objs[strings.TrimSuffix(key, ".kfs")+".index"]
		if !ok {
			continue
		}
		if _, err := ParseIndex(idx); err != nil {
			continue
		}
		if len(seg) < 32+segmentFooterLen {
			continue
		}
		lastOffset, err := parseSegmentFooter(seg[len(seg)-segmentFooterLen:])
		if err != nil {
			continue
		}
		segBase := int64(binary.BigEndian.Uint64(seg[8:16]))
		if a.base < segBase || a.last > lastOffset {
			continue
		}
		if vsymContains(seg[32:len(seg)-segmentFooterLen], a.bytes) {
			return true
		}
	}
	return false
}

func vsymContains(hay, needle []byte) bool {
	for i := 0; i+len(needle) <= len(hay); i++ {
		if vsym_BytesEq(hay[i:i+len(needle)], needle) {
			return true
		}
	}
	return false
}

func bgCtx() context.Context { return context.Background() }
