package storage

import (
	"context"
	"strings"
)

// Concurrent produce harness shared by C01, C05 and C06: P producers on one partition log, each
// running handleProduce's rule (append, flush, ack iff both succeed) as a logical thread; every
// S3 upload asks the solver whether it fails; the scheduler's choice at every mutex, condition
// variable and S3 call is a solver-driven decision. The metadata store's per-partition
// next_offset is mirrored by a monitor that records every published watermark.

type vsymConcWorld struct {
	s3             *vsymS3
	l              *PartitionLog
	acks           []vsymAck
	published      []int64 // every value stored as next_offset, in order
	storeNext      int64   // the metadata store's next_offset
	publishEvents  bool    // the store update is a scheduling point (C05)
	checkAtPublish bool
	s3EventsOnly   bool // producers are preempted only at S3 calls and when they block
}

func (w *vsymConcWorld) onFlush(ctx context.Context, a *SegmentArtifact) {
	// metadata.Store.UpdateOffsets(topic, partition, lastOffset): next_offset = lastOffset + 1
	if w.publishEvents {
		vsym_Event("publish")
	}
	prev := w.storeNext
	w.storeNext = a.LastOffset + 1
	w.published = append(w.published, w.storeNext)
	if w.checkAtPublish {
		vsym_Reach("published")
		vsym_Assert(w.storeNext >= prev, "C05/published-watermark-never-decreases")
		vsym_Assert(w.storeNext <= w.maxDurableEnd(), "C05/watermark-not-ahead-of-s3")
	}
}

func vsymNewConcWorld(faulty bool) *vsymConcWorld {
	w := &vsymConcWorld{s3: newVsymS3()}
	w.s3.faulty = faulty
	w.s3.onCall = func(op, key string) { vsym_Event(op + ":" + key) }
	w.l = vsymNewLog(w.s3, 0, PartitionLogConfig{}, w.onFlush)
	return w
}

// maxDurableEnd returns 1 + the largest last offset over segment objects whose index object
// also exists (0 when there is none).
func (w *vsymConcWorld) maxDurableEnd() int64 {
	defer w.s3.lock()()
	end := int64(0)
	for key, seg := range w.s3.objs {
		if !strings.HasSuffix(key, ".kfs") || len(seg) < 32+segmentFooterLen {
			continue
		}
		if _, ok := w.s3.objs[strings.TrimSuffix(key, ".kfs")+".index"]; !ok {
			continue
		}
		last, err := parseSegmentFooter(seg[len(seg)-segmentFooterLen:])
		if err == nil && last+1 > end {
			end = last + 1
		}
	}
	return end
}

func (w *vsymConcWorld) producer(i int, prop string) func() {
	return func() {
		records := vsymBatch(1, vsym_Bytes("payload", 1))
		name := string(rune('A' + i))
		if w.s3EventsOnly {
			name = "~" + name
		}
		ack, ok := vsymProduceAs(context.Background(), w.l, records, name)
		if !ok {
			vsym_Reach("nack")
			return
		}
		vsym_Reach("ack")
		if prop == "C01" {
			vsym_Assert(vsymDurable(w.s3, ack), "C01/acknowledged-batch-is-in-an-indexed-s3-segment")
		}
		w.acks = append(w.acks, ack)
	}
}

func (w *vsymConcWorld) checkWatermarks() {
	prev := int64(0)
	for _, p := range w.published {
		vsym_Assert(p >= prev, "C05/published-watermark-never-decreases")
		prev = p
	}
}
