package storage

import (
	"context"
	"errors"

	"github.com/KafScale/platform/pkg/cache"
)

// Read-level harness shared by C03 and C04: a partition log built by the real AppendBatch/Flush
// over the S3 model (two segments of two batches, an optional hole left by a segment that went missing, one
// batch still in the write buffer, optional restart), then one Read at a symbolic offset with a
// symbolic byte limit, checked against the flat list of acknowledged batches.

type vsymStored struct {
	ack     vsymAck
	region  int  // 0,1 = segment number; 2 = write buffer (or the batches of an in-flight flush); 3 = appended during that flush
	pos     int  // byte position of the batch inside its region's body
	indexed bool // the batch has its own sparse-index entry
}

// vsymReadWide selects the three-batches-per-segment layout (set by the harness before building)
var vsymReadWide bool

type vsymReadWorld struct {
	l        *PartitionLog
	s3       *vsymS3
	stored   []vsymStored
	body     [4][]byte // concatenated acknowledged batch bytes per region (2 = buffer / batches being flushed, 3 = appended during that flush)
	interval int32
	next     int64
}

func vsymBuildReadWorld(interval int32, cacheOn, hole, restart bool) *vsymReadWorld {
	ctx := context.Background()
	w := &vsymReadWorld{s3: newVsymS3(), interval: interval}
	cfg := PartitionLogConfig{Segment: SegmentWriterConfig{IndexIntervalMessages: interval}, CacheEnabled: cacheOn}
	var c *cache.SegmentCache
	if cacheOn {
		c = cache.NewSegmentCache(1 << 20)
	}
	w.l = NewPartitionLog("ns", "t", 0, 0, w.s3, c, cfg, nil, nil, nil)
	counts := [][]int32{{2, 1}, {1, 2}}
	plens := [][]int{{0, 9}, {9, 0}}
	if vsymReadWide {
		// three batches per segment: an index with three entries, so that an offset can lie
		// strictly between two entries in more than one way
		counts = [][]int32{{2, 2, 2}, {1, 2, 2}}
		plens = [][]int{{0, 9, 0}, {9, 0, 0}}
	}
	for seg := 0; seg < 2; seg++ {
		since := int32(0)
		for bi := 0; bi < len(counts[seg]); bi++ {
			raw := vsymBatch(counts[seg][bi], vsym_Bytes("payload", plens[seg][bi]))
			b, err := NewRecordBatchFromBytes(raw)
			vsym_Assert(err == nil, "build/batch")
			res, err := w.l.AppendBatch(ctx, b)
			vsym_Assert(err == nil, "build/append")
			indexed := bi == 0 || since >= interval || interval <= 1
			if indexed {
				since = 0
			}
			since += counts[seg][bi]
			w.stored = append(w.stored, vsymStored{ack: vsymAck{res.BaseOffset, res.LastOffset, append([]byte(nil), b.Bytes...)}, region: seg, pos: len(w.body[seg]), indexed: indexed})
			w.body[seg] = append(w.body[seg], b.Bytes...)
		}
		vsym_Assert(w.l.Flush(ctx) == nil, "build/flush")
		if seg == 0 && hole {
			// a middle segment that later goes missing (an orphan skipped by a restore, an
			// expired object): its offsets are taken, its bytes are not readable
			lost, _ := NewRecordBatchFromBytes(vsymBatch(2, nil))
			res, err := w.l.AppendBatch(ctx, lost)
			vsym_Assert(err == nil, "build/append")
			vsym_Assert(w.l.Flush(ctx) == nil, "build/flush")
			delete(w.s3.objs, w.l.segmentKey(res.BaseOffset))
			delete(w.s3.objs, w.l.indexKey(res.BaseOffset))
			kept := w.l.segments[:0]
			for _, sr := range w.l.segments {
				if sr.baseOffset != res.BaseOffset {
					kept = append(kept, sr)
				}
			}
			w.l.segments = kept
			delete(w.l.indexEntries, res.BaseOffset)
			if c != nil {
				c.SetSegment(w.l.cacheTopicKey(), 0, res.BaseOffset, nil)
			}
		}
	}
	if restart {
		w.l = NewPartitionLog("ns", "t", 0, 0, w.s3, c, cfg, nil, nil, nil)
		_, err := w.l.RestoreFromS3(ctx)
		vsym_Assert(err == nil, "build/restore")
	} else {
		// the unflushed tail: one batch, or (wide layout) three batches of different sizes
		tail := []int{3}
		if vsymReadWide {
			tail = []int{3, 9, 0}
		}
		for _, plen := range tail {
			raw := vsymBatch(1, vsym_Bytes("payload", plen))
			b, _ := NewRecordBatchFromBytes(raw)
			res, err := w.l.AppendBatch(ctx, b)
			vsym_Assert(err == nil, "build/append")
			w.stored = append(w.stored, vsymStored{ack: vsymAck{res.BaseOffset, res.LastOffset, append([]byte(nil), b.Bytes...)}, region: 2, pos: len(w.body[2]), indexed: true})
			w.body[2] = append(w.body[2], b.Bytes...)
		}
	}
	w.next = w.l.nextOffset
	return w
}

// vsymCheckReadMidFlush: the buffered batch is being flushed (its upload is in flight), another
// produce is appended meanwhile, and the Read happens at that moment: the batch being uploaded is
// still part of the log and precedes the newly buffered one.
func vsymCheckReadMidFlush(w *vsymReadWorld, prop int) {
	ctx := context.Background()
	done := false
	var (
		ro   int64
		rmax int32
		rgot []byte
		rerr error
	)
	w.s3.onCall = func(op, key string) {
		if op != "upload-segment" || done {
			return
		}
		done = true
		raw := vsymBatch(2, vsym_Bytes("payload", 2))
		b, _ := NewRecordBatchFromBytes(raw)
		res, err := w.l.AppendBatch(ctx, b)
		vsym_Assert(err == nil, "build/append-during-flush")
		w.stored = append(w.stored, vsymStored{ack: vsymAck{res.BaseOffset, res.LastOffset, append([]byte(nil), b.Bytes...)}, region: 3, pos: 0, indexed: true})
		w.body[3] = append(w.body[3], b.Bytes...)
		w.next = w.l.nextOffset
		vsym_Reach("mid-flush")
		// (the read happens here, inside the upload; it is judged after the flush returns so
		// that a native run does not assert inside the log's own goroutine)
		ro, rmax, rgot, rerr = vsymDoRead(w)
	}
	vsym_Assert(w.l.Flush(ctx) == nil, "build/flush")
	vsym_Assert(done, "build/flush-uploaded")
	vsymVerifyRead(w, prop, ro, rmax, rgot, rerr)
}

// vsymCheckRead performs one Read and checks it. prop selects the assertions: 3 = C03
// (exact bytes, contiguous run from a batch boundary at or before the batch of o, nothing
// foreign), 4 = C04 (the reply contains the start of the batch holding o or of the next one).
func vsymCheckRead(w *vsymReadWorld, prop int) {
	o, maxBytes, got, err := vsymDoRead(w)
	vsymVerifyRead(w, prop, o, maxBytes, got, err)
}

func vsymDoRead(w *vsymReadWorld) (int64, int32, []byte, error) {
	o := vsym_Int64("offset")
	vsym_Assume(o >= 0 && o <= w.next+1)
	maxBytes := vsym_Int32("maxBytes")
	vsym_Assume(maxBytes >= 1 && maxBytes <= 400)
	got, err := w.l.Read(context.Background(), o, maxBytes)
	return o, maxBytes, got, err
}

func vsymVerifyRead(w *vsymReadWorld, prop int, o int64, maxBytes int32, got []byte, err error) {
	// the batch holding o, or the first one after it
	target := -1
	for i := len(w.stored) - 1; i >= 0; i-- {
		if o <= w.stored[i].ack.last {
			target = i
		}
	}
	if target < 0 {
		vsym_Reach("beyond-end")
		if prop == 3 {
			vsym_Assert(err != nil && errors.Is(err, ErrOffsetOutOfRange) && len(got) == 0, "C03/nothing-beyond-the-log-end")
		}
		return
	}
	t := w.stored[target]
	vsym_Assert(err == nil, "read/no-error-below-log-end")
	body := w.body[t.region]
	if t.region == 2 {
		vsym_Reach("from-buffer")
	} else {
		vsym_Reach("from-segment")
	}
	// where may the reply start: at a batch boundary of the same region at or before the target.
	// Short replies can match at several boundaries (batch headers look alike), so both
	// questions are asked existentially over the boundaries.
	matched, covering := false, false
	for i := 0; i <= target; i++ {
		s := w.stored[i]
		if s.region != t.region || len(got) == 0 || s.pos+len(got) > len(body) {
			continue
		}
		eq := vsym_BytesEq(got, body[s.pos:s.pos+len(got)])
		matched = vsym_Or(matched, eq)
		covering = vsym_Or(covering, vsym_And(eq, s.pos <= t.pos && t.pos < s.pos+len(got)))
	}
	if prop == 3 {
		vsym_Assert(len(got) > 0, "C03/data-returned-below-log-end")
		vsym_Assert(matched, "C03/reply-is-a-run-of-acknowledged-bytes-from-a-batch-boundary-at-or-before-o")
		return
	}
	// C04 asks where an acknowledged run lies relative to o; a reply that is not a run of the
	// log at all is C03's subject. Runs of earlier regions count: they hold only records before o.
	anywhere := matched
	for _, s := range w.stored {
		b := w.body[s.region]
		if len(got) == 0 || s.pos+len(got) > len(b) {
			continue
		}
		anywhere = vsym_Or(anywhere, vsym_BytesEq(got, b[s.pos:s.pos+len(got)]))
	}
	vsym_Assume(anywhere)
	// governing sparse-index entry: the last indexed batch of the region at or before the target
	gov := 0
	for i := 0; i <= target; i++ {
		if w.stored[i].region == t.region && w.stored[i].indexed {
			gov = w.stored[i].pos
		}
	}
	dist := t.pos - gov
	vsym_Known("C04-sparse-index-small-limit", vsym_And(dist > 0, int(maxBytes) <= dist))
	vsym_Assert(covering, "C04/reply-contains-start-of-batch-of-o")
}
