package metadata

import (
	"context"
	"time"
)

// C16 — committed offsets read back exactly; commits never affect another (group, topic,
// partition), whatever characters the names contain.

func vsymName(tag string, n int) string {
	s := vsym_String(tag, n)
	for i := 0; i < n; i++ {
		c := s[i]
		vsym_Assume(vsym_Or(c == 'a', vsym_Or(c == 'b', vsym_Or(c == ':', c == '/'))))
	}
	return s
}

func vsymHasSep(s string) bool {
	r := false
	for i := 0; i < len(s); i++ {
		r = vsym_Or(r, vsym_Or(s[i] == ':', s[i] == '/'))
	}
	return r
}

// Two commits to (possibly equal) triples, then a fetch of each: the last commit to that
// exact triple wins and the other triple is untouched.
func VsymC16_StoreIsolation() {
	ctx := context.Background()
	st := NewInMemoryStore(ClusterMetadata{})
	g1, t1 := vsymName("g1", vsym_Param("lg1")), vsymName("t1", vsym_Param("lt1"))
	g2, t2 := vsymName("g2", vsym_Param("lg2")), vsymName("t2", vsym_Param("lt2"))
	p1, p2 := int32(vsym_Choose("p1", 2)), int32(vsym_Choose("p2", 2))
	o1, o2 := vsym_Int64("o1"), vsym_Int64("o2")
	vsym_Assume(o1 >= 0 && o2 >= 0 && o1 != o2)
	same := vsym_And(vsym_StrEq(g1, g2), vsym_And(vsym_StrEq(t1, t2), p1 == p2))
	vsym_Assert(st.CommitConsumerOffset(ctx, g1, t1, p1, o1, "m1") == nil, "C16/commit-ok")
	vsym_Assert(st.CommitConsumerOffset(ctx, g2, t2, p2, o2, "m2") == nil, "C16/commit-ok")
	got1, meta1, err1 := st.FetchConsumerOffset(ctx, g1, t1, p1)
	got2, meta2, err2 := st.FetchConsumerOffset(ctx, g2, t2, p2)
	vsym_Reach("fetched")
	vsym_Assert(err1 == nil && err2 == nil, "C16/fetch-ok")
	vsym_Assert(got2 == o2 && meta2 == "m2", "C16/last-commit-reads-back")
	// Known finding: "group:topic:partition" is not injective when names contain ':'
	sep := vsym_Or(vsymHasSep(g1), vsym_Or(vsymHasSep(t1), vsym_Or(vsymHasSep(g2), vsymHasSep(t2))))
	vsym_Known("C16-separator-collision", vsym_And(!same, sep))
	vsym_Assert(same || (got1 == o1 && meta1 == "m1"), "C16/other-triple-untouched")
	if same {
		vsym_Assert(got1 == o2, "C16/same-triple-overwritten")
	}
}

// The same two-commit isolation question for the etcd-backed store (its key is built from the
// names with '/' separators): names over {a, b, /, .} so that empty, "." and ".." path segments
// and doubled or trailing slashes are among the solver's cases.
func vsymPathName(tag string, n int) string {
	s := vsym_String(tag, n)
	for i := 0; i < n; i++ {
		c := s[i]
		vsym_Assume(vsym_Or(c == 'a', vsym_Or(c == 'b', vsym_Or(c == '.', c == '/'))))
	}
	return s
}

func VsymC16_EtcdIsolation() {
	if vsym_Symbolic() {
		vsym_Override("time.Now", func() time.Time { return time.Unix(1700000000, 0) })
	}
	ctx := context.Background()
	e := newVsymEtcd()
	st := &EtcdStore{client: e.client("store"), metadata: NewInMemoryStore(ClusterMetadata{}), available: 1}
	g1, g2 := vsymPathName("g1", vsym_Param("lg1")), vsymPathName("g2", vsym_Param("lg2"))
	t1, t2 := "t", "t"
	if vsym_Bool("names-in-topic") {
		// the varying names are the topics instead of the groups
		t1, t2, g1, g2 = g1, g2, "g", "g"
	}
	o1, o2 := vsym_Int64("o1"), vsym_Int64("o2")
	vsym_Assume(o1 >= 0 && o2 >= 0 && o1 != o2)
	same := vsym_And(vsym_StrEq(g1, g2), vsym_StrEq(t1, t2))
	vsym_Assert(st.CommitConsumerOffset(ctx, g1, t1, 0, o1, "m1") == nil, "C16/commit-ok")
	vsym_Assert(st.CommitConsumerOffset(ctx, g2, t2, 0, o2, "m2") == nil, "C16/commit-ok")
	got1, meta1, err1 := st.FetchConsumerOffset(ctx, g1, t1, 0)
	got2, meta2, err2 := st.FetchConsumerOffset(ctx, g2, t2, 0)
	vsym_Reach("etcd-fetched")
	vsym_Assert(err1 == nil && err2 == nil, "C16/fetch-ok")
	vsym_Assert(got2 == o2 && meta2 == "m2", "C16/last-commit-reads-back")
	vsym_Assert(same || (got1 == o1 && meta1 == "m1"), "C16/other-triple-untouched")
}

// A history of commits over two fixed triples with metadata chosen from {"", "x", "yy"}: each
// fetch returns offset and metadata of the last commit to that triple (an empty metadata
// string replaces an earlier non-empty one).
func VsymC16_StoreHistory() {
	ctx := context.Background()
	st := NewInMemoryStore(ClusterMetadata{})
	metas := []string{"", "x", "yy"}
	type last struct {
		off  int64
		meta string
		set  bool
	}
	var ref [2]last
	n := vsym_Param("commits")
	for i := 0; i < n; i++ {
		k := vsym_Choose("triple", 2)
		off := vsym_Int64("off")
		vsym_Assume(off >= 0)
		meta := metas[vsym_Choose("meta", len(metas))]
		vsym_Assert(st.CommitConsumerOffset(ctx, "g", "t", int32(k), off, meta) == nil, "C16/commit-ok")
		ref[k] = last{off, meta, true}
	}
	for k := 0; k < 2; k++ {
		got, meta, err := st.FetchConsumerOffset(ctx, "g", "t", int32(k))
		vsym_Assert(err == nil, "C16/fetch-ok")
		if ref[k].set {
			vsym_Reach("history-fetched")
			vsym_Assert(got == ref[k].off, "C16/fetch-returns-last-committed-offset")
			vsym_Assert(meta == ref[k].meta, "C16/fetch-returns-last-committed-metadata")
		}
	}
}

func VsymC16_Twin() {
	st := NewInMemoryStore(ClusterMetadata{})
	_ = st.CommitConsumerOffset(context.Background(), "g", "t", 0, vsym_Int64("o"), "")
	got, _, _ := st.FetchConsumerOffset(context.Background(), "g", "t", 0)
	vsym_Assert(got == 5, "C16/twin")
}
