package broker

import (
	"context"

	"github.com/twmb/franz-go/pkg/kmsg"
)

// C16 (coordinator side) — OffsetFetch returns, for every requested partition, the offset and
// metadata of the last successful commit; a partition never committed reads -1.
//
// One member joins and syncs; it commits nc times to solver-chosen partitions among
// (t0,0) (t0,1) (t1,0) with symbolic offsets and metadata chosen from {"", "x", "yy"};
// one OffsetFetch asks for all three plus (t1,1), which nobody ever commits.

var vsymC16Metas = []string{"", "x", "yy"}

type vsymC16Key struct {
	topic string
	part  int32
}

var vsymC16Keys = []vsymC16Key{{"t0", 0}, {"t0", 1}, {"t1", 0}}

func VsymC16_CoordinatorFetch() {
	nc := vsym_Param("commits")
	w := vsymNewWorld("C16", 2, 2)
	r := w.join("", []string{"t0", "t1"})
	vsym_Assert(r.ErrorCode == 0, "C16/join-ok")
	w.sync(r.MemberID, r.Generation)
	type last struct {
		off  int64
		meta string
		set  bool
	}
	ref := make([]last, len(vsymC16Keys))
	for i := 0; i < nc; i++ {
		ki := vsym_Choose("key", len(vsymC16Keys))
		off := vsym_Int64("off")
		vsym_Assume(off >= 0)
		meta := vsymC16Metas[vsym_Choose("meta", len(vsymC16Metas))]
		req := kmsg.NewPtrOffsetCommitRequest()
		req.Group, req.MemberID, req.Generation = vsymGroup, r.MemberID, r.Generation
		t := kmsg.NewOffsetCommitRequestTopic()
		t.Topic = vsymC16Keys[ki].topic
		p := kmsg.NewOffsetCommitRequestTopicPartition()
		p.Partition, p.Offset = vsymC16Keys[ki].part, off
		if meta != "" || vsym_Bool("explicitEmptyMeta") {
			m := meta
			p.Metadata = &m
		}
		t.Partitions = append(t.Partitions, p)
		req.Topics = append(req.Topics, t)
		resp, err := w.c.OffsetCommit(context.Background(), req)
		vsym_Assert(err == nil && resp.Topics[0].Partitions[0].ErrorCode == 0, "C16/commit-accepted")
		ref[ki] = last{off, meta, true}
	}
	freq := kmsg.NewPtrOffsetFetchRequest()
	freq.Group = vsymGroup
	ft0 := kmsg.NewOffsetFetchRequestTopic()
	ft0.Topic, ft0.Partitions = "t0", []int32{0, 1}
	ft1 := kmsg.NewOffsetFetchRequestTopic()
	ft1.Topic, ft1.Partitions = "t1", []int32{0, 1}
	freq.Topics = append(freq.Topics, ft0, ft1)
	fresp, err := w.c.OffsetFetch(context.Background(), freq)
	vsym_Assert(err == nil && fresp.ErrorCode == 0 && len(fresp.Topics) == 2, "C16/fetch-ok")
	vsym_Reach("fetched")
	for ti, ft := range fresp.Topics {
		vsym_Assert(len(ft.Partitions) == 2, "C16/one-entry-per-requested-partition")
		for pi, fp := range ft.Partitions {
			vsym_Assert(fp.Partition == int32(pi) && fp.ErrorCode == 0, "C16/fetch-entry-shape")
			got := ""
			if fp.Metadata != nil {
				got = *fp.Metadata
			}
			idx := -1
			for ki, k := range vsymC16Keys {
				if k.topic == ft.Topic && k.part == fp.Partition {
					idx = ki
				}
			}
			_ = ti
			if idx >= 0 && ref[idx].set {
				vsym_Assert(fp.Offset == ref[idx].off, "C16/fetch-returns-last-committed-offset")
				vsym_Assert(got == ref[idx].meta, "C16/fetch-returns-last-committed-metadata")
			} else {
				// Known finding: the stores cannot tell "never committed" from "committed 0".
				vsym_Known("C16-missing-offset-reads-zero", true)
				vsym_Assert(fp.Offset == -1, "C16/never-committed-reads-minus-one")
			}
		}
	}
}

func VsymC16_CoordTwin() {
	w := vsymNewWorld("C16", 1, 1)
	r := w.join("", []string{"t0"})
	w.commit(r.MemberID, r.Generation, "t0", 0, vsym_Int64("o"))
	freq := kmsg.NewPtrOffsetFetchRequest()
	freq.Group = vsymGroup
	ft := kmsg.NewOffsetFetchRequestTopic()
	ft.Topic, ft.Partitions = "t0", []int32{0}
	freq.Topics = append(freq.Topics, ft)
	fresp, _ := w.c.OffsetFetch(context.Background(), freq)
	vsym_Assert(fresp.Topics[0].Partitions[0].Offset == 7, "C16/coord-twin")
}
