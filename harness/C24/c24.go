package main

import (
	"context"
	"strings"

	"github.com/twmb/franz-go/pkg/kmsg"

	"github.com/KafScale/platform/pkg/acl"
	"github.com/KafScale/platform/pkg/metadata"
	"github.com/KafScale/platform/pkg/protocol"
)

// C24 — with ACLs on, an unauthorized request changes nothing and leaks nothing.
//
// Setup: default policy deny; "alice" may do everything and prepares state (records in t0/0, a
// group g with a committed offset); "mallory" lacks every permission the request needs, in one
// of four ways chosen by the explorer (no entry / entry without rules / explicit deny-all /
// allow rules that only cover other names). Mallory then sends one request of the API selected
// by the instance parameter. The metadata store sits behind a mutation monitor and the S3
// model records reads and writes.

func vsymMalloryRules(variant int) []acl.PrincipalRules {
	alice := acl.PrincipalRules{Name: "alice", Allow: []acl.Rule{{Action: acl.ActionAny, Resource: acl.ResourceAny, Name: "*"}}}
	switch variant {
	case 0:
		return []acl.PrincipalRules{alice}
	case 1:
		return []acl.PrincipalRules{alice, {Name: "mallory"}}
	case 2:
		return []acl.PrincipalRules{alice, {Name: "mallory", Deny: []acl.Rule{{Action: acl.ActionAny, Resource: acl.ResourceAny, Name: "*"}}}}
	case 3:
		return []acl.PrincipalRules{alice, {Name: "mallory", Allow: []acl.Rule{
			{Action: acl.ActionAny, Resource: acl.ResourceTopic, Name: "other*"},
			{Action: acl.ActionAny, Resource: acl.ResourceGroup, Name: "other*"},
		}}}
	case 5:
		// the principal is listed twice: an entry that denies everything, then one with allow rules only
		return []acl.PrincipalRules{alice,
			{Name: "mallory", Deny: []acl.Rule{{Action: acl.ActionAny, Resource: acl.ResourceAny, Name: "*"}}},
			{Name: "mallory", Allow: []acl.Rule{{Action: acl.ActionAny, Resource: acl.ResourceAny, Name: "*"}}},
		}
	}
	// exact rules for names that differ from the targets only in letter case (names are case-sensitive)
	return []acl.PrincipalRules{alice, {Name: "mallory", Allow: []acl.Rule{
		{Action: acl.ActionAny, Resource: acl.ResourceTopic, Name: "T0"},
		{Action: acl.ActionAny, Resource: acl.ResourceTopic, Name: "T1"},
		{Action: acl.ActionAny, Resource: acl.ResourceTopic, Name: "ZZ"},
		{Action: acl.ActionAny, Resource: acl.ResourceTopic, Name: "Fresh"},
		{Action: acl.ActionAny, Resource: acl.ResourceGroup, Name: "G"},
	}}}
}

func vsymAuthCodes(resp kmsg.Response) (codes []int16, data int) {
	switch r := resp.(type) {
	case *kmsg.ProduceResponse:
		for _, t := range r.Topics {
			for _, p := range t.Partitions {
				codes = append(codes, p.ErrorCode)
			}
		}
	case *kmsg.FetchResponse:
		for _, t := range r.Topics {
			for _, p := range t.Partitions {
				codes = append(codes, p.ErrorCode)
				data += len(p.RecordBatches)
			}
		}
	case *kmsg.MetadataResponse:
		for _, t := range r.Topics {
			codes = append(codes, t.ErrorCode)
		}
	case *kmsg.JoinGroupResponse:
		codes = append(codes, r.ErrorCode)
	case *kmsg.SyncGroupResponse:
		codes = append(codes, r.ErrorCode)
		data += len(r.MemberAssignment)
	case *kmsg.HeartbeatResponse:
		codes = append(codes, r.ErrorCode)
	case *kmsg.LeaveGroupResponse:
		codes = append(codes, r.ErrorCode)
	case *kmsg.DescribeGroupsResponse:
		for _, g := range r.Groups {
			codes = append(codes, g.ErrorCode)
			data += len(g.Members)
		}
	case *kmsg.ListGroupsResponse:
		codes = append(codes, r.ErrorCode)
		data += len(r.Groups)
	case *kmsg.OffsetCommitResponse:
		for _, t := range r.Topics {
			for _, p := range t.Partitions {
				codes = append(codes, p.ErrorCode)
			}
		}
	case *kmsg.OffsetFetchResponse:
		if len(r.Topics) == 0 {
			codes = append(codes, r.ErrorCode)
		}
		for _, t := range r.Topics {
			for _, p := range t.Partitions {
				codes = append(codes, p.ErrorCode)
				if p.Offset > 0 {
					data++
				}
			}
		}
	case *kmsg.ListOffsetsResponse:
		for _, t := range r.Topics {
			for _, p := range t.Partitions {
				codes = append(codes, p.ErrorCode)
				if p.Offset > 0 {
					data++
				}
			}
		}
	case *kmsg.OffsetForLeaderEpochResponse:
		for _, t := range r.Topics {
			for _, p := range t.Partitions {
				codes = append(codes, p.ErrorCode)
				if p.EndOffset > 0 {
					data++
				}
			}
		}
	case *kmsg.DescribeConfigsResponse:
		for _, res := range r.Resources {
			codes = append(codes, res.ErrorCode)
			data += len(res.Configs)
		}
	case *kmsg.AlterConfigsResponse:
		for _, res := range r.Resources {
			codes = append(codes, res.ErrorCode)
		}
	case *kmsg.CreatePartitionsResponse:
		for _, t := range r.Topics {
			codes = append(codes, t.ErrorCode)
		}
	case *kmsg.CreateTopicsResponse:
		for _, t := range r.Topics {
			codes = append(codes, t.ErrorCode)
		}
	case *kmsg.DeleteTopicsResponse:
		for _, t := range r.Topics {
			codes = append(codes, t.ErrorCode)
		}
	case *kmsg.DeleteGroupsResponse:
		for _, g := range r.Groups {
			codes = append(codes, g.ErrorCode)
		}
	}
	return codes, data
}

func vsymIsAuthCode(c int16) bool {
	return c == protocol.TOPIC_AUTHORIZATION_FAILED || c == protocol.GROUP_AUTHORIZATION_FAILED || c == 31 /* CLUSTER_AUTHORIZATION_FAILED */
}

func vsymRequestFor(api int, topic string, memberID string, gen int32) kmsg.Request {
	sp := func(s string) *string { return &s }
	switch api {
	case 0:
		return vsymProduceReq(1, []vsymTP{{topic, 0}}, []byte{9})
	case 1:
		return vsymFetchReq([]vsymTP{{topic, 0}}, 0)
	case 3:
		r := kmsg.NewPtrMetadataRequest()
		r.Version = 4
		t := kmsg.NewMetadataRequestTopic()
		t.Topic = sp(topic)
		r.Topics = append(r.Topics, t)
		r.AllowAutoTopicCreation = true
		return r
	case 2:
		r := kmsg.NewPtrListOffsetsRequest()
		r.Version = 3
		r.ReplicaID = -1
		t := kmsg.NewListOffsetsRequestTopic()
		t.Topic = topic
		p := kmsg.NewListOffsetsRequestTopicPartition()
		p.Partition, p.Timestamp = 0, -1
		t.Partitions = append(t.Partitions, p)
		r.Topics = append(r.Topics, t)
		return r
	case 8:
		r := kmsg.NewPtrOffsetCommitRequest()
		r.Version = 3
		r.Group, r.MemberID, r.Generation = "g", memberID, gen
		t := kmsg.NewOffsetCommitRequestTopic()
		t.Topic = "t0"
		p := kmsg.NewOffsetCommitRequestTopicPartition()
		p.Partition, p.Offset = 0, 99
		t.Partitions = append(t.Partitions, p)
		r.Topics = append(r.Topics, t)
		return r
	case 9:
		r := kmsg.NewPtrOffsetFetchRequest()
		r.Version = 5
		r.Group = "g"
		t := kmsg.NewOffsetFetchRequestTopic()
		t.Topic, t.Partitions = "t0", []int32{0}
		r.Topics = append(r.Topics, t)
		return r
	case 11:
		r := kmsg.NewPtrJoinGroupRequest()
		r.Version = 4
		r.Group, r.ProtocolType, r.SessionTimeoutMillis, r.RebalanceTimeoutMillis = "g", "consumer", 10000, 10000
		p := kmsg.NewJoinGroupRequestProtocol()
		p.Name, p.Metadata = "range", []byte{0, 0, 0, 0, 0, 1, 0, 2, 't', '0', 0, 0, 0, 0}
		r.Protocols = append(r.Protocols, p)
		return r
	case 12:
		r := kmsg.NewPtrHeartbeatRequest()
		r.Version = 4
		r.Group, r.MemberID, r.Generation = "g", memberID, gen
		return r
	case 13:
		r := kmsg.NewPtrLeaveGroupRequest()
		r.Version = 2
		r.Group, r.MemberID = "g", memberID
		return r
	case 14:
		r := kmsg.NewPtrSyncGroupRequest()
		r.Version = 4
		r.Group, r.MemberID, r.Generation = "g", memberID, gen
		return r
	case 15:
		r := kmsg.NewPtrDescribeGroupsRequest()
		r.Version = 5
		r.Groups = []string{"g"}
		return r
	case 16:
		r := kmsg.NewPtrListGroupsRequest()
		r.Version = 2
		return r
	case 19:
		r := kmsg.NewPtrCreateTopicsRequest()
		r.Version = 2
		t := kmsg.NewCreateTopicsRequestTopic()
		t.Topic, t.NumPartitions, t.ReplicationFactor = "fresh", 1, 1
		r.Topics = append(r.Topics, t)
		return r
	case 20:
		r := kmsg.NewPtrDeleteTopicsRequest()
		r.Version = 2
		r.TopicNames = []string{"t1"}
		return r
	case 23:
		r := kmsg.NewPtrOffsetForLeaderEpochRequest()
		r.Version = 3
		r.ReplicaID = -1
		t := kmsg.NewOffsetForLeaderEpochRequestTopic()
		t.Topic = topic
		p := kmsg.NewOffsetForLeaderEpochRequestTopicPartition()
		p.Partition, p.LeaderEpoch, p.CurrentLeaderEpoch = 0, 0, -1
		t.Partitions = append(t.Partitions, p)
		r.Topics = append(r.Topics, t)
		return r
	case 32:
		r := kmsg.NewPtrDescribeConfigsRequest()
		r.Version = 4
		res := kmsg.NewDescribeConfigsRequestResource()
		res.ResourceType, res.ResourceName = kmsg.ConfigResourceTypeTopic, "t0"
		r.Resources = append(r.Resources, res)
		return r
	case 33:
		r := kmsg.NewPtrAlterConfigsRequest()
		r.Version = 1
		res := kmsg.NewAlterConfigsRequestResource()
		res.ResourceType, res.ResourceName = kmsg.ConfigResourceTypeTopic, "t0"
		c := kmsg.NewAlterConfigsRequestResourceConfig()
		c.Name, c.Value = "retention.ms", sp("1000")
		res.Configs = append(res.Configs, c)
		r.Resources = append(r.Resources, res)
		return r
	case 37:
		r := kmsg.NewPtrCreatePartitionsRequest()
		r.Version = 1
		t := kmsg.NewCreatePartitionsRequestTopic()
		t.Topic, t.Count = "t0", 5
		r.Topics = append(r.Topics, t)
		return r
	case 42:
		r := kmsg.NewPtrDeleteGroupsRequest()
		r.Version = 1
		r.Groups = []string{"g"}
		return r
	}
	return nil
}

func VsymC24_Unauthorized() {
	api := vsym_Param("api")
	b, mon := vsymNewMonBroker()
	b.h.authorizer = acl.NewAuthorizer(acl.Config{Enabled: true, DefaultPolicy: "deny", Principals: vsymMalloryRules(vsym_Choose("mallory-rules", 6))})
	b.h.autoCreateTopics = vsym_Bool("auto-create")
	// alice prepares state
	pr := b.vsymCall("alice", vsymProduceReq(1, []vsymTP{{"t0", 0}}, []byte{1, 2, 3})).(*kmsg.ProduceResponse)
	vsym_Assert(pr.Topics[0].Partitions[0].ErrorCode == 0, "C24/setup-produce")
	jr := b.vsymCall("alice", vsymRequestFor(11, "t0", "", 0)).(*kmsg.JoinGroupResponse)
	vsym_Assert(jr.ErrorCode == 0, "C24/setup-join")
	sr := b.vsymCall("alice", vsymRequestFor(14, "t0", jr.MemberID, jr.Generation)).(*kmsg.SyncGroupResponse)
	vsym_Assert(sr.ErrorCode == 0, "C24/setup-sync")
	cr := b.vsymCall("alice", vsymRequestFor(8, "t0", jr.MemberID, jr.Generation)).(*kmsg.OffsetCommitResponse)
	vsym_Assert(cr.Topics[0].Partitions[0].ErrorCode == 0, "C24/setup-commit")
	topicsBefore := vsymTopicCount(b)
	groupBefore := vsymGroupFingerprint(b)
	mon.mutations, b.s3.writes, b.s3.reads = nil, nil, nil
	// mallory's request: an existing topic, or (Metadata/Produce/Fetch) one that does not exist yet
	topic := "t0"
	if vsym_Bool("unknown-topic") {
		topic = "zz"
	}
	member, gen := jr.MemberID, jr.Generation
	if vsym_Bool("own-member-id") {
		member, gen = "", 0
	}
	req := vsymRequestFor(api, topic, member, gen)
	if api == 0 && vsym_Bool("acks-zero") {
		// fire-and-forget produce: no reply is sent, the request must still change nothing
		req = vsymProduceReq(0, []vsymTP{{topic, 0}}, []byte{9})
	}
	resp := b.vsymCall("mallory", req)
	vsym_Reach("answered")
	vsym_Assert(len(mon.mutations) == 0, "C24/unauthorized-request-mutates-no-metadata")
	vsym_Assert(len(b.s3.writes) == 0, "C24/unauthorized-request-writes-nothing-to-s3")
	vsym_Assert(vsymTopicCount(b) == topicsBefore, "C24/unauthorized-request-creates-no-topic")
	vsym_Assert(vsymGroupFingerprint(b) == groupBefore, "C24/unauthorized-request-changes-no-group")
	vsym_Assert(len(b.s3.reads) == 0, "C24/unauthorized-request-reads-no-records")
	if resp == nil {
		vsym_Reach("no-reply")
		return
	}
	codes, data := vsymAuthCodes(resp)
	vsym_Assert(data == 0, "C24/unauthorized-reply-carries-no-data")
	vsym_Assert(len(codes) > 0, "C24/reply-has-an-error-slot")
	for _, c := range codes {
		vsym_Assert(vsymIsAuthCode(c), "C24/unauthorized-reply-carries-authorization-error")
	}
}

// VsymC24_Mixed: one request naming an authorized topic (t1) and an unauthorized one (t0), in
// either order, by name or by topic id: the unauthorized entry is refused and touches nothing,
// whatever was decided for its neighbour.
func VsymC24_Mixed() {
	api := vsym_Param("api")
	b, mon := vsymNewMonBroker()
	b.h.authorizer = acl.NewAuthorizer(acl.Config{Enabled: true, DefaultPolicy: "deny", Principals: []acl.PrincipalRules{
		{Name: "alice", Allow: []acl.Rule{{Action: acl.ActionAny, Resource: acl.ResourceAny, Name: "*"}}},
		{Name: "mallory", Allow: []acl.Rule{{Action: acl.ActionAny, Resource: acl.ResourceTopic, Name: "t1"}}},
	}})
	for _, t := range []string{"t0", "t1"} {
		pr := b.vsymCall("alice", vsymProduceReq(1, []vsymTP{{t, 0}}, []byte{1, 2, 3})).(*kmsg.ProduceResponse)
		vsym_Assert(pr.Topics[0].Partitions[0].ErrorCode == 0, "C24/setup-produce")
	}
	mon.mutations, b.s3.writes, b.s3.reads = nil, nil, nil
	order := []string{"t1", "t0"}
	if vsym_Bool("unauthorized-first") {
		order = []string{"t0", "t1"}
	}
	tps := []vsymTP{{order[0], 0}, {order[1], 0}}
	var req kmsg.Request
	switch api {
	case 0:
		req = vsymProduceReq(1, tps, []byte{9})
	case 1:
		req = vsymFetchReq(tps, 0)
	case 101:
		fr := vsymFetchReq(tps, 0)
		fr.Version = 13
		for i := range fr.Topics {
			fr.Topics[i].TopicID = metadata.TopicIDForName(fr.Topics[i].Topic)
			fr.Topics[i].Topic = ""
		}
		req = fr
	case 2:
		lo := vsymRequestFor(2, order[0], "", 0).(*kmsg.ListOffsetsRequest)
		lo.Topics = append(lo.Topics, vsymRequestFor(2, order[1], "", 0).(*kmsg.ListOffsetsRequest).Topics...)
		req = lo
	case 3:
		md := vsymRequestFor(3, order[0], "", 0).(*kmsg.MetadataRequest)
		md.Topics = append(md.Topics, vsymRequestFor(3, order[1], "", 0).(*kmsg.MetadataRequest).Topics...)
		req = md
	}
	resp := b.vsymCall("mallory", req)
	vsym_Reach("mixed-answered")
	id0 := metadata.TopicIDForName("t0")
	check := func(name string, id [16]byte, code int16, data int) {
		if name == "t0" || (name == "" && id == id0) {
			vsym_Assert(vsymIsAuthCode(code), "C24/unauthorized-entry-refused-next-to-an-authorized-one")
			vsym_Assert(data == 0, "C24/unauthorized-reply-carries-no-data")
		} else if code == 0 {
			// (whether the authorized neighbour is served or the whole request refused is the broker's choice)
			vsym_Reach("authorized-neighbour-served")
		}
	}
	switch r := resp.(type) {
	case *kmsg.ProduceResponse:
		vsym_Assert(len(r.Topics) == 2, "C24/every-entry-answered")
		for _, t := range r.Topics {
			check(t.Topic, [16]byte{}, t.Partitions[0].ErrorCode, 0)
		}
	case *kmsg.FetchResponse:
		vsym_Assert(len(r.Topics) == 2, "C24/every-entry-answered")
		for _, t := range r.Topics {
			check(t.Topic, t.TopicID, t.Partitions[0].ErrorCode, len(t.Partitions[0].RecordBatches))
		}
	case *kmsg.ListOffsetsResponse:
		vsym_Assert(len(r.Topics) == 2, "C24/every-entry-answered")
		for _, t := range r.Topics {
			d := 0
			if t.Partitions[0].Offset > 0 {
				d = 1
			}
			check(t.Topic, [16]byte{}, t.Partitions[0].ErrorCode, d)
		}
	case *kmsg.MetadataResponse:
		vsym_Assert(len(r.Topics) == 2, "C24/every-entry-answered")
		for _, t := range r.Topics {
			check(*t.Topic, [16]byte{}, t.ErrorCode, len(t.Partitions))
		}
	}
	for _, w := range b.s3.writes {
		vsym_Assert(!strings.Contains(w, "/t0/"), "C24/unauthorized-request-writes-nothing-to-s3")
	}
	for _, rd := range b.s3.reads {
		vsym_Assert(!strings.Contains(rd, "/t0/"), "C24/unauthorized-request-reads-no-records")
	}
}

func vsymGroupFingerprint(b *vsymBroker) int {
	// generation*100 + member count of the persisted group state, 0 when the group is gone
	g, err := b.store.FetchConsumerGroup(context.Background(), "g")
	if err != nil || g == nil {
		return 0
	}
	fp := int(g.GenerationId)*100 + len(g.Members)
	if g.State == "stable" {
		fp += 10000
	}
	return fp
}

func vsymTopicCount(b *vsymBroker) int {
	md, err := b.store.Metadata(context.Background(), nil)
	if err != nil {
		return -1
	}
	return len(md.Topics)
}

func VsymC24_Twin() {
	b, mon := vsymNewMonBroker()
	b.h.authorizer = acl.NewAuthorizer(acl.Config{Enabled: true, DefaultPolicy: "deny", Principals: vsymMalloryRules(0)})
	b.vsymCall("alice", vsymProduceReq(1, []vsymTP{{"t0", 0}}, vsym_Bytes("p", 1)))
	vsym_Assert(len(mon.mutations) == 0, "C24/twin")
}
