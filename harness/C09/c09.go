package cache

// C09 — the segment cache stays within capacity and returns current bytes.
//
// History harness from the empty cache: k operations, each chosen symbolically among
// set(key, data) / get(key) over 3 keys (2 topics, 2 offsets), data length 0..3 (chosen
// symbolically, so every mix of sizes), data bytes symbolic, capacity symbolic in [1,8].
// After every operation: size accounting, capacity, map/list agreement; every hit returns
// the bytes of the latest set of that key; every slice handed out by GetSegment still
// holds, at the end of the history, the bytes it held when it was returned.

type vsymC09Key struct {
	topic string
	base  int64
}

var vsymC09Keys = []vsymC09Key{{"a", 0}, {"a", 1}, {"b", 0}}

type vsymC09Handed struct {
	got  []byte
	copy []byte
}

func vsymC09Check(c *SegmentCache) {
	sum, n := 0, 0
	for e := c.ll.Front(); e != nil; e = e.Next() {
		ent := e.Value.(*cacheEntry)
		sum += len(ent.data)
		n++
		el, ok := c.items[ent.key]
		vsym_Assert(ok && el == e, "C09/list-entry-indexed")
	}
	vsym_Assert(c.size == sum, "C09/size-is-sum-of-entries")
	vsym_Assert(c.size <= c.capacity, "C09/within-capacity")
	vsym_Assert(len(c.items) == n, "C09/index-matches-list")
}

func VsymC09_History() {
	k := vsym_Param("k")
	capacity := vsym_Int("capacity")
	vsym_Assume(capacity >= 1 && capacity <= 8)
	c := NewSegmentCache(capacity)
	last := map[int][]byte{}
	var handed []vsymC09Handed
	for i := 0; i < k; i++ {
		ki := vsym_Choose("key", len(vsymC09Keys))
		key := vsymC09Keys[ki]
		if vsym_Choose("op", 2) == 0 {
			n := vsym_Choose("len", 4)
			data := vsym_Bytes("data", n)
			c.SetSegment(key.topic, 0, key.base, data)
			last[ki] = append([]byte(nil), data...)
			// the caller may reuse its buffer afterwards
			for j := range data {
				data[j] ^= 0xff
			}
		} else {
			got, ok := c.GetSegment(key.topic, 0, key.base)
			if ok {
				vsym_Reach("hit")
				want, set := last[ki]
				vsym_Assert(set, "C09/hit-only-after-set")
				vsym_Assert(vsym_BytesEq(got, want), "C09/hit-returns-latest-set")
				handed = append(handed, vsymC09Handed{got: got, copy: append([]byte(nil), got...)})
			} else {
				vsym_Reach("miss")
			}
		}
		vsymC09Check(c)
	}
	for _, h := range handed {
		vsym_Assert(vsym_BytesEq(h.got, h.copy), "C09/handed-out-bytes-stable")
	}
}

func VsymC09_Twin() {
	c := NewSegmentCache(4)
	d := vsym_Bytes("d", 2)
	c.SetSegment("a", 0, 0, d)
	got, ok := c.GetSegment("a", 0, 0)
	vsym_Assert(!ok || len(got) != 2, "C09/twin")
}
