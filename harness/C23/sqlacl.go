package proxy

// C23 (SQL proxy side) — ACL{Allow,Deny}.Allows: deny patterns override, an empty allow list is
// the proxy's "default allow", otherwise some allow pattern must match.

func vsymGlob(p, s string) bool {
	if p == "" {
		return s == ""
	}
	switch p[0] {
	case '*':
		for i := 0; i <= len(s); i++ {
			if vsymGlob(p[1:], s[i:]) {
				return true
			}
		}
		return false
	case '?':
		return len(s) > 0 && vsymGlob(p[1:], s[1:])
	}
	return len(s) > 0 && s[0] == p[0] && vsymGlob(p[1:], s[1:])
}

func vsymTrimSp(s string) string {
	for len(s) > 0 && s[0] == ' ' {
		s = s[1:]
	}
	for len(s) > 0 && s[len(s)-1] == ' ' {
		s = s[:len(s)-1]
	}
	return s
}

func vsymAnyMatch(ps []string, topic string) bool {
	for _, p := range ps {
		p = vsymTrimSp(p)
		if p == "" {
			continue
		}
		if p == topic || vsymGlob(p, topic) {
			return true
		}
	}
	return false
}

func vsymRefACL(a ACL, topic string) bool {
	if vsymAnyMatch(a.Deny, topic) {
		return false
	}
	if len(a.Allow) == 0 {
		return true
	}
	return vsymAnyMatch(a.Allow, topic)
}

func vsymPattern(tag string) string {
	n := vsym_Choose(tag+"-len", 3)
	s := vsym_String(tag, n)
	for i := 0; i < n; i++ {
		c := s[i]
		vsym_Assume(vsym_Or(c == 'a', vsym_Or(c == 'b', vsym_Or(c == '*', vsym_Or(c == '?', c == ' ')))))
	}
	return s
}

func vsymTopic() string {
	n := vsym_Choose("topic-len", 3)
	s := vsym_String("topic", n)
	for i := 0; i < n; i++ {
		vsym_Assume(vsym_Or(s[i] == 'a', s[i] == 'b'))
	}
	return s
}

func VsymC23_SQLDecision() {
	var a ACL
	// list shapes {deny entries, allow entries}; the full 2 x 2 product does not finish
	shape := [][2]int{{0, 0}, {1, 0}, {0, 1}, {1, 1}, {2, 0}, {0, 2}, {2, 1}, {1, 2}}[vsym_Param("shape")]
	for i := 0; i < shape[0]; i++ {
		a.Deny = append(a.Deny, vsymPattern("deny"))
	}
	for i := 0; i < shape[1]; i++ {
		a.Allow = append(a.Allow, vsymPattern("allow"))
	}
	topic := vsymTopic()
	got := a.Allows(topic)
	if got {
		vsym_Reach("allowed")
	} else {
		vsym_Reach("denied")
	}
	vsym_Assert(got == vsymRefACL(a, topic), "C23/sql-decision-matches-statement")
}

func VsymC23_SQLMonotone() {
	a := ACL{Allow: []string{vsymPattern("allow0")}}
	if vsym_Bool("has-deny") {
		a.Deny = []string{vsymPattern("deny0")}
	}
	topic := vsymTopic()
	before := a.Allows(topic)
	extra := vsymPattern("extra")
	b := ACL{Allow: append([]string(nil), a.Allow...), Deny: append([]string(nil), a.Deny...)}
	vsym_Reach("monotone")
	if vsym_Bool("add-deny") {
		b.Deny = append(b.Deny, extra)
		vsym_Assert(before || !b.Allows(topic), "C23/sql-adding-deny-never-grants")
	} else {
		b.Allow = append(b.Allow, extra)
		vsym_Assert(!before || b.Allows(topic), "C23/sql-adding-allow-never-removes")
	}
}

func VsymC23_SQLTwin() {
	a := ACL{Deny: []string{vsymPattern("d")}}
	vsym_Assert(a.Allows("a"), "C23/sql-twin")
}
