package acl

// C23 — ACL decisions: deny overrides, defaults apply, rules are monotone.
//
// Reference decision procedure written from the property statement (independent code):
//   principal := trimmed request principal, "anonymous" when empty
//   rules     := the allow and deny rules of every configured entry whose trimmed name is the principal
//   no such entry            -> default policy
//   some deny rule matches   -> deny
//   some allow rule matches  -> allow
//   otherwise                -> default policy
// A rule matches when its action and resource are empty, "*" or equal to the request's ignoring
// ASCII case, and its (trimmed) name is empty, "*", equal to the request's name, or "<prefix>*"
// with the request's name starting with <prefix>.

var (
	vsymActions   = []Action{"", "produce", "FETCH"}
	vsymResources = []Resource{"*", "topic", "GROUP"}
	vsymReqAct    = []Action{ActionProduce, ActionFetch}
	vsymReqRes    = []Resource{ResourceTopic, ResourceGroup}
	vsymPolicies  = []string{"allow", " Allow ", "deny", ""}
	vsymPrincipal = []string{"alice", " alice ", "bob", ""}
)

func vsymLower(b byte) byte {
	if b >= 'A' && b <= 'Z' {
		return b + 32
	}
	return b
}

func vsymFoldEq(a, b string) bool {
	if len(a) != len(b) {
		return false
	}
	for i := 0; i < len(a); i++ {
		if vsymLower(a[i]) != vsymLower(b[i]) {
			return false
		}
	}
	return true
}

func vsymTrim(s string) string {
	for len(s) > 0 && (s[0] == ' ' || s[0] == '\t') {
		s = s[1:]
	}
	for len(s) > 0 && (s[len(s)-1] == ' ' || s[len(s)-1] == '\t') {
		s = s[:len(s)-1]
	}
	return s
}

func vsymRefMatches(r Rule, action Action, resource Resource, name string) bool {
	if !(r.Action == "" || r.Action == "*" || vsymFoldEq(string(r.Action), string(action))) {
		return false
	}
	if !(r.Resource == "" || r.Resource == "*" || vsymFoldEq(string(r.Resource), string(resource))) {
		return false
	}
	rn := vsymTrim(r.Name)
	if rn == "" || rn == "*" || rn == name {
		return true
	}
	if rn[len(rn)-1] == '*' {
		p := rn[:len(rn)-1]
		return len(name) >= len(p) && name[:len(p)] == p
	}
	return false
}

func vsymRefAllows(cfg Config, principal string, action Action, resource Resource, name string) bool {
	def := vsymFoldEq(vsymTrim(cfg.DefaultPolicy), "allow")
	p := vsymTrim(principal)
	if p == "" {
		p = "anonymous"
	}
	found, denied, allowed := false, false, false
	for _, e := range cfg.Principals {
		if vsymTrim(e.Name) == "" || vsymTrim(e.Name) != p {
			continue
		}
		found = true
		for _, r := range e.Deny {
			if vsymRefMatches(r, action, resource, name) {
				denied = true
			}
		}
		for _, r := range e.Allow {
			if vsymRefMatches(r, action, resource, name) {
				allowed = true
			}
		}
	}
	switch {
	case !found:
		return def
	case denied:
		return false
	case allowed:
		return true
	}
	return def
}

func vsymRuleName(tag string) string {
	n := vsym_Choose(tag+"-len", 3)
	s := vsym_String(tag, n)
	for i := 0; i < n; i++ {
		c := s[i]
		vsym_Assume(vsym_Or(c == 'a', vsym_Or(c == 'b', vsym_Or(c == '*', c == ' '))))
	}
	return s
}

func vsymRule(tag string) Rule {
	return Rule{
		Action:   vsymActions[vsym_Choose(tag+"-action", len(vsymActions))],
		Resource: vsymResources[vsym_Choose(tag+"-resource", len(vsymResources))],
		Name:     vsymRuleName(tag + "-name"),
	}
}

// vsymTinyRule: a rule that matches every action and resource and whose name is a, b or *
// (rule-level matching is the subject of VsymC23_Match; the structural harnesses only need
// rules that match some requests and not others).
func vsymTinyRule(tag string) Rule {
	return Rule{Name: []string{"a", "b", "*"}[vsym_Choose(tag, 3)]}
}

func vsymTinyName() string { return []string{"a", "b"}[vsym_Choose("req-name", 2)] }

func vsymReqName() string {
	n := vsym_Choose("req-name-len", 3)
	s := vsym_String("req-name", n)
	for i := 0; i < n; i++ {
		vsym_Assume(vsym_Or(s[i] == 'a', vsym_Or(s[i] == 'b', s[i] == '*')))
	}
	return s
}

func vsymEntry(tag string, nd, na int) PrincipalRules {
	e := PrincipalRules{Name: vsymPrincipal[vsym_Choose(tag+"-principal", len(vsymPrincipal))]}
	for i := 0; i < nd; i++ {
		e.Deny = append(e.Deny, vsymTinyRule(tag+"-deny"))
	}
	for i := 0; i < na; i++ {
		e.Allow = append(e.Allow, vsymTinyRule(tag+"-allow"))
	}
	return e
}

// VsymC23_Match: one arbitrary rule against one arbitrary request.
func VsymC23_Match() {
	r := vsymRule("r")
	action := vsymReqAct[vsym_Choose("req-action", 2)]
	resource := vsymReqRes[vsym_Choose("req-resource", 2)]
	name := vsymReqName()
	got := matches(r, action, resource, name)
	if got {
		vsym_Reach("match")
	} else {
		vsym_Reach("no-match")
	}
	vsym_Assert(got == vsymRefMatches(r, action, resource, name), "C23/rule-matching-as-stated")
}

// VsymC23_Decision: implementation == reference on a configuration of one entry.
func VsymC23_Decision() {
	cfg := Config{Enabled: true, DefaultPolicy: vsymPolicies[vsym_Choose("policy", len(vsymPolicies))]}
	cfg.Principals = append(cfg.Principals, vsymEntry("e0", vsym_Param("nd"), vsym_Param("na")))
	who := vsymPrincipal[vsym_Choose("who", len(vsymPrincipal))]
	action, resource := ActionProduce, ResourceTopic
	name := vsymTinyName()
	got := NewAuthorizer(cfg).Allows(who, action, resource, name)
	want := vsymRefAllows(cfg, who, action, resource, name)
	if got {
		vsym_Reach("allowed")
	} else {
		vsym_Reach("denied")
	}
	vsym_Assert(got == want, "C23/decision-matches-statement")
}

// VsymC23_TwoEntries: two configured entries, possibly for the same principal (a deny rule in
// either one must be honoured).
func VsymC23_TwoEntries() {
	cfg := Config{Enabled: true, DefaultPolicy: vsymPolicies[vsym_Choose("policy", len(vsymPolicies))]}
	first := PrincipalRules{Name: "alice"}
	second := PrincipalRules{Name: []string{"alice", " alice", "bob"}[vsym_Choose("second", 3)]}
	r1, r2 := vsymTinyRule("r1"), vsymTinyRule("r2")
	if vsym_Bool("r1-deny") {
		first.Deny = []Rule{r1}
	} else {
		first.Allow = []Rule{r1}
	}
	if vsym_Bool("r2-deny") {
		second.Deny = []Rule{r2}
	} else {
		second.Allow = []Rule{r2}
	}
	cfg.Principals = []PrincipalRules{first, second}
	action := ActionProduce
	name := vsymTinyName()
	got := NewAuthorizer(cfg).Allows("alice", action, ResourceTopic, name)
	want := vsymRefAllows(cfg, "alice", action, ResourceTopic, name)
	vsym_Reach("two")
	vsym_Assert(got == want, "C23/decision-matches-statement-two-entries")
}

// VsymC23_Monotone: adding one allow rule never turns allow into deny; adding one deny rule
// never turns deny into allow (the rule is added to the principal's existing entry, or as a
// new entry when the principal has none).
func VsymC23_Monotone() {
	cfg := Config{Enabled: true, DefaultPolicy: vsymPolicies[vsym_Choose("policy", len(vsymPolicies))]}
	base := PrincipalRules{Name: "alice"}
	if vsym_Param("nd") == 1 {
		base.Deny = []Rule{vsymTinyRule("d0")}
	}
	if vsym_Param("na") == 1 {
		base.Allow = []Rule{vsymTinyRule("a0")}
	}
	hasEntry := vsym_Bool("has-entry")
	if hasEntry {
		cfg.Principals = []PrincipalRules{base}
	}
	action := ActionProduce
	name := vsymTinyName()
	before := NewAuthorizer(cfg).Allows("alice", action, ResourceTopic, name)
	extra := vsymTinyRule("extra")
	addDeny := vsym_Bool("add-deny")
	next := base
	if !hasEntry {
		next = PrincipalRules{Name: "alice"}
	}
	if addDeny {
		next.Deny = append(append([]Rule(nil), next.Deny...), extra)
	} else {
		next.Allow = append(append([]Rule(nil), next.Allow...), extra)
	}
	cfg2 := Config{Enabled: true, DefaultPolicy: cfg.DefaultPolicy, Principals: []PrincipalRules{next}}
	after := NewAuthorizer(cfg2).Allows("alice", action, ResourceTopic, name)
	vsym_Reach("monotone")
	if addDeny {
		vsym_Assert(before || !after, "C23/adding-deny-never-grants")
	} else if hasEntry {
		vsym_Assert(!before || after, "C23/adding-allow-never-removes")
	} else {
		// Giving a principal its first entry takes it out of "unknown principal -> default policy":
		// with default allow, the request stays allowed only if the new rule matches or the default
		// still applies, which the statement's decision procedure guarantees.
		vsym_Assert(!before || after, "C23/adding-allow-never-removes")
	}
}

func VsymC23_Twin() {
	cfg := Config{Enabled: true, DefaultPolicy: "deny", Principals: []PrincipalRules{{Name: "alice", Allow: []Rule{vsymTinyRule("r")}}}}
	vsym_Assert(!NewAuthorizer(cfg).Allows("alice", ActionProduce, ResourceTopic, "a"), "C23/twin")
}
