package discovery

// C36 (where the offset statistics come from) — the S3 lister derives a segment's MaxOffset from
// "the next segment" of the sorted listing (findNextSegment). That statistic bounds the segment's
// records only if the next segment belongs to the same topic and partition and starts later.
//
// A sorted listing of two partitions of topic t (two segments each, symbolic increasing base
// offsets) and one segment of topic u: for every position, findNextSegment returns nil or the
// immediate successor within the same topic and partition.
func VsymC36_NextSegment() {
	b := []int64{vsym_Int64("p0s0"), vsym_Int64("p0s1"), vsym_Int64("p1s0"), vsym_Int64("p1s1"), vsym_Int64("u0")}
	for _, v := range b {
		vsym_Assume(vsym_And(v >= 0, v < 1<<40))
	}
	vsym_Assume(vsym_And(b[0] < b[1], b[2] < b[3]))
	segs := []SegmentRef{
		{Topic: "t", Partition: 0, BaseOffset: b[0]},
		{Topic: "t", Partition: 0, BaseOffset: b[1]},
		{Topic: "t", Partition: 1, BaseOffset: b[2]},
		{Topic: "t", Partition: 1, BaseOffset: b[3]},
		{Topic: "u", Partition: 1, BaseOffset: b[4]},
	}
	for i := range segs {
		next := findNextSegment(segs, i)
		if next == nil {
			continue
		}
		vsym_Assert(next.Topic == segs[i].Topic && next.Partition == segs[i].Partition, "C36/max-offset-derived-from-a-segment-of-the-same-partition")
		vsym_Assert(next.BaseOffset > segs[i].BaseOffset && next == &segs[i+1], "C36/max-offset-derived-from-the-immediate-successor")
		vsym_Reach("derived")
	}
	vsym_Assert(findNextSegment(segs, 0) != nil && findNextSegment(segs, 2) != nil, "C36/successor-within-a-partition-is-found")
	vsym_Assert(findNextSegment(segs, 4) == nil, "C36/last-segment-has-no-successor")
}
