package server

import (
	"github.com/kafscale/platform/addons/processors/sql-processor/internal/discovery"
	kafsql "github.com/kafscale/platform/addons/processors/sql-processor/internal/sql"
)

// C36 (segment pruning) — skipping segments on offset and time statistics never drops a segment
// that holds a matching record.
//
// Three segments of one partition (plus one of another partition and one of another topic),
// laid out as the lister produces them: MinOffset = base offset, MaxOffset = next base - 1 (absent
// on the last segment), time statistics present or absent per segment. A record lives in one of
// them at a symbolic offset and timestamp consistent with that segment's statistics; the query's
// partition, offset and time filters are symbolic (each present or absent). If the record
// satisfies the filters, its segment must survive filterSegments.
func vsymOpt64(tag string) *int64 {
	if vsym_Bool(tag + "-set") {
		v := vsym_Int64(tag)
		return &v
	}
	return nil
}

func VsymC36_Pruning() {
	var segs []discovery.SegmentRef
	bases := []int64{0, 0, 0}
	bases[0] = vsym_Int64("base0")
	bases[1] = vsym_Int64("base1")
	bases[2] = vsym_Int64("base2")
	vsym_Assume(vsym_And(bases[0] >= 0, vsym_And(bases[0] < bases[1], vsym_And(bases[1] < bases[2], bases[2] < 1<<40))))
	for i := 0; i < 3; i++ {
		b := bases[i]
		s := discovery.SegmentRef{Topic: "t", Partition: 0, BaseOffset: b, MinOffset: &b}
		if i < 2 {
			m := bases[i+1] - 1
			s.MaxOffset = &m
		}
		if vsym_Bool("has-time-stats") {
			lo, hi := vsym_Int64("minTs"), vsym_Int64("maxTs")
			vsym_Assume(lo <= hi)
			s.MinTimestamp, s.MaxTimestamp = &lo, &hi
		}
		segs = append(segs, s)
	}
	ob := int64(5)
	segs = append(segs, discovery.SegmentRef{Topic: "t", Partition: 1, BaseOffset: 5, MinOffset: &ob})
	segs = append(segs, discovery.SegmentRef{Topic: "u", Partition: 0, BaseOffset: 5, MinOffset: &ob})
	// the record
	si := vsym_Choose("segment", 3)
	o, ts := vsym_Int64("offset"), vsym_Int64("timestamp")
	vsym_Assume(o >= bases[si])
	if si < 2 {
		vsym_Assume(o < bases[si+1])
	}
	if segs[si].MinTimestamp != nil {
		vsym_Assume(vsym_And(ts >= *segs[si].MinTimestamp, ts <= *segs[si].MaxTimestamp))
	}
	// the query
	q := kafsql.Query{Topic: "t", OffsetMin: vsymOpt64("offMin"), OffsetMax: vsymOpt64("offMax")}
	if vsym_Bool("partition-set") {
		p := vsym_Int32("partition")
		q.Partition = &p
	}
	tMin, tMax := vsymOpt64("tsMin"), vsymOpt64("tsMax")
	matches := (q.Partition == nil || *q.Partition == 0) &&
		(q.OffsetMin == nil || o >= *q.OffsetMin) && (q.OffsetMax == nil || o <= *q.OffsetMax) &&
		(tMin == nil || ts >= *tMin) && (tMax == nil || ts <= *tMax)
	kept := filterSegments(q, segs, tMin, tMax)
	vsym_Reach("filtered")
	for _, k := range kept {
		vsym_Assert(k.Topic == "t", "C36/only-the-queried-topic")
		vsym_Assert(q.Partition == nil || k.Partition == *q.Partition, "C36/only-the-queried-partition")
	}
	if matches {
		vsym_Reach("matching-record")
		found := false
		for _, k := range kept {
			if k.Partition == 0 && k.BaseOffset == bases[si] {
				found = true
			}
		}
		vsym_Assert(found, "C36/segment-of-a-matching-record-is-never-skipped")
	}
}

func VsymC36_Twin() {
	b := int64(0)
	m := vsym_Int64("max")
	segs := []discovery.SegmentRef{{Topic: "t", BaseOffset: 0, MinOffset: &b, MaxOffset: &m}}
	lo := int64(10)
	kept := filterSegments(kafsql.Query{Topic: "t", OffsetMin: &lo}, segs, nil, nil)
	vsym_Assert(len(kept) == 1, "C36/twin")
}
