package broker

import (
	"context"

	"github.com/twmb/franz-go/pkg/kmsg"
)

// C15 — group state survives coordinator failover.

func vsymFailover(w *vsymWorld) *GroupCoordinator {
	return &GroupCoordinator{
		store:  w.c.store,
		broker: w.c.broker,
		config: defaultCoordinatorConfig,
		stopCh: make(chan struct{}),
		groups: make(map[string]*groupState),
	}
}

func VsymC15_Failover() {
	k := vsym_Param("k")
	w := vsymNewWorld("C15", 2, 1)
	for i := 0; i < k; i++ {
		w.step()
	}
	a := w.state()
	bc := vsymFailover(w)
	b, err := bc.loadGroupIfMissing(context.Background(), vsymGroup)
	vsym_Assert(err == nil, "C15/load-ok")
	vsym_Reach("failover")
	if a == nil {
		vsym_Assert(b == nil, "C15/no-group-stays-no-group")
		return
	}
	vsym_Assert(b != nil, "C15/group-restored")
	vsym_Assert(b.generationID == a.generationID, "C15/generation-preserved")
	vsym_Assert(b.state == a.state, "C15/phase-preserved")
	vsym_Assert(b.leaderID == a.leaderID, "C15/leader-preserved")
	vsym_Assert(len(b.members) == len(a.members), "C15/member-set-preserved")
	for id, ma := range a.members {
		mb := b.members[id]
		vsym_Assert(mb != nil, "C15/member-set-preserved")
		vsym_Assert(vsymSameStrings(ma.topics, mb.topics), "C15/subscriptions-preserved")
		vsym_Assert(mb.sessionTimeout == ma.sessionTimeout, "C15/session-timeout-preserved")
		aa, ab := a.assignments[id], b.assignments[id]
		vsym_Assert(len(aa) == len(ab), "C15/assignments-preserved")
		for i := range aa {
			vsym_Assert(aa[i].Name == ab[i].Name && vsymSameInt32s(aa[i].Partitions, ab[i].Partitions), "C15/assignments-preserved")
		}
	}
	vsym_Assert(b.rebalanceTimeout == a.rebalanceTimeout, "C15/rebalance-timeout-preserved")
	// members of the current generation keep working against the new coordinator
	if a.state == groupStateStable {
		vsym_Reach("stable")
		for _, id := range w.currentMembers() {
			hb := kmsgHeartbeat(id, a.generationID)
			vsym_Assert(bc.Heartbeat(context.Background(), hb).ErrorCode == 0, "C15/stable-member-heartbeat-ok-after-failover")
			// a (re)sync in the current generation gets the same assignment from both coordinators,
			// also for a member whose assignment is empty
			sr := kmsg.NewPtrSyncGroupRequest()
			sr.Group, sr.MemberID, sr.Generation = vsymGroup, id, a.generationID
			oldResp, errA := w.c.SyncGroup(context.Background(), sr)
			newResp, errB := bc.SyncGroup(context.Background(), sr)
			vsym_Assert(errA == nil && errB == nil && oldResp.ErrorCode == 0, "C15/setup-sync")
			vsym_Assert(newResp.ErrorCode == 0, "C15/stable-member-sync-ok-after-failover")
			vsym_Assert(vsym_BytesEq(newResp.MemberAssignment, oldResp.MemberAssignment) && len(newResp.MemberAssignment) == len(oldResp.MemberAssignment), "C15/assignments-preserved")
		}
	}
	// a rebalance that only waits for the leader's sync is not set back: everybody who has joined
	// the generation is still counted as joined
	if a.state == groupStateCompletingRebalance {
		vsym_Reach("completing")
		for id, ma := range a.members {
			if ma.joinGeneration == a.generationID {
				vsym_Assert(b.members[id].joinGeneration == b.generationID, "C15/rejoined-member-still-rejoined-after-failover")
			}
		}
		// (the restored coordinator arms a fresh rebalance deadline; that is harmless as long as
		// nobody is counted as a lagger, which is what is asserted above)
	}
	// the new coordinator never completes a rebalance the old one would not have completed
	if a.state == groupStatePreparingRebalance {
		vsym_Reach("preparing")
		for id, ma := range a.members {
			if ma.joinGeneration != a.generationID {
				vsym_Assert(b.members[id].joinGeneration != b.generationID, "C15/pending-rejoin-still-pending-after-failover")
			}
		}
	}
}

func vsymSameStrings(a, b []string) bool {
	if len(a) != len(b) {
		return false
	}
	for i := range a {
		if a[i] != b[i] {
			return false
		}
	}
	return true
}

func vsymSameInt32s(a, b []int32) bool {
	if len(a) != len(b) {
		return false
	}
	for i := range a {
		if a[i] != b[i] {
			return false
		}
	}
	return true
}

func VsymC15_Twin() {
	w := vsymNewWorld("C15", 1, 1)
	w.join("", []string{"t0"})
	b, _ := vsymFailover(w).loadGroupIfMissing(context.Background(), vsymGroup)
	vsym_Assert(b == nil || vsym_Choose("z", 1) == 1, "C15/twin")
}
