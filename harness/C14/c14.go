package broker

// C14 — rebalances complete only when every member has rejoined.

func VsymC14_Rebalance() {
	k := vsym_Param("k")
	w := vsymNewWorld("C14", vsym_Param("parts"), 1)
	w.timed = true
	w.takeovers = vsym_Param("takeovers") == 1
	w.fixedSubs = true
	w.sessionMs = 30000 // longer than the 10 s rebalance timeout: laggers are dropped before sessions lapse
	for i := 0; i < k; i++ {
		w.step()
		st := w.state()
		if st == nil {
			continue
		}
		if st.state == groupStateStable {
			vsym_Reach("stable")
			for _, id := range w.currentMembers() {
				vsym_Assert(st.members[id].joinGeneration == st.generationID, "C14/stable-implies-all-rejoined")
				vsym_Assert(w.sync(id, st.generationID).ErrorCode == 0, "C14/stable-member-sync-none")
			}
		}
		if st.state == groupStateCompletingRebalance {
			for _, id := range w.currentMembers() {
				vsym_Assert(st.members[id].joinGeneration == st.generationID, "C14/completing-implies-all-rejoined")
			}
		}
		_, ok := st.members[st.leaderID]
		vsym_Assert(ok, "C14/leader-is-a-member")
	}
}

func VsymC14_Twin() {
	w := vsymNewWorld("C14", 1, 1)
	r := w.join("", []string{"t0"})
	vsym_Assert(r.ErrorCode != 0 || vsym_Choose("z", 1) == 1, "C14/twin")
}
