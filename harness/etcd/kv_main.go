package main

import (
	"context"
	"errors"
	"sort"
	"strings"
	"sync"

	pb "go.etcd.io/etcd/api/v3/etcdserverpb"
	"go.etcd.io/etcd/api/v3/mvccpb"
	clientv3 "go.etcd.io/etcd/client/v3"
)

// Model of an etcd cluster behind the clientv3 interfaces (KV, Txn, Watcher, Lease): an ordered
// key space with create/mod revisions and versions, leases that delete their keys when they end,
// and watchers that receive the events from the revision at which they were created (or from
// WithRev). It is the stated stand-in for the etcd server in C17, C18, C20, C21, C22 and C27.

var vsymErrEtcd = errors.New("vsym: injected etcd failure")

type vsymEtcdEntry struct {
	value                []byte
	create, mod, version int64
	lease                clientv3.LeaseID
}

type vsymEtcdWatch struct {
	key, end string
	ch       chan clientv3.WatchResponse
	ctx      context.Context
	closed   bool
	startRev int64
}

type vsymEtcdKA struct {
	ch     chan *clientv3.LeaseKeepAliveResponse
	closed bool
}

func (k *vsymEtcdKA) close() {
	if !k.closed {
		k.closed = true
		close(k.ch)
	}
}

type vsymEtcdLease struct {
	id    clientv3.LeaseID
	alive bool
	ka    []*vsymEtcdKA
}

type vsymEtcd struct {
	data     map[string]*vsymEtcdEntry
	rev      int64
	history  []*clientv3.Event // every event ever, for watches started WithRev
	histRev  []int64
	watches  []*vsymEtcdWatch
	leases   map[clientv3.LeaseID]*vsymEtcdLease
	nextID   int64
	onOp     func(op, key string)      // scheduling point / fault hook; returning is "proceed"
	onOpWho  func(who, op, key string) // the same, also told which client calls
	onOpDone func(who, op, key string) // after the operation took effect, before the caller sees the reply
	failNext func(op, key string) bool
	log      []string
	atomic   int        // 0: every write opens a revision; 1/2: inside one atomic operation (2: revision already opened)
	mu       sync.Mutex // native runs only: the code under test calls the model from several goroutines
}

// unlockForHook releases the native lock around a scheduling hook called from inside an operation.
func (e *vsymEtcd) unlockForHook() func() {
	if vsym_Symbolic() {
		return func() {}
	}
	e.mu.Unlock()
	return e.mu.Lock
}

// lock serialises the model's operations in native runs (replay, validation). Under the executor
// every model operation already runs without preemption, and no lock operation is added.
func (e *vsymEtcd) lock() func() {
	if vsym_Symbolic() {
		return func() {}
	}
	e.mu.Lock()
	return e.mu.Unlock
}

func newVsymEtcd() *vsymEtcd {
	return &vsymEtcd{data: map[string]*vsymEtcdEntry{}, rev: 1, leases: map[clientv3.LeaseID]*vsymEtcdLease{}}
}

// client returns a clientv3.Client whose KV, Watcher and Lease are this model. who tags the
// caller in the operation log; leaseOf supplies the lease attached by WithLease puts (the option
// is not observable through Op's exported accessors): the session lease of that client.
func (e *vsymEtcd) client(who string) *clientv3.Client {
	c := clientv3.NewCtxClient(context.Background())
	f := &vsymEtcdFacade{e: e, who: who}
	c.KV, c.Watcher, c.Lease = f, f, f
	return c
}

type vsymEtcdFacade struct {
	e         *vsymEtcd
	who       string
	lastLease clientv3.LeaseID
}

func (e *vsymEtcd) hook(op, key string) error { return e.hookAs("", op, key) }

func (e *vsymEtcd) hookAs(who, op, key string) error {
	un := e.lock()
	e.log = append(e.log, op+":"+key)
	un()
	if e.onOp != nil {
		e.onOp(op, key)
	}
	if e.onOpWho != nil {
		e.onOpWho(who, op, key)
	}
	if e.failNext != nil && e.failNext(op, key) {
		return vsymErrEtcd
	}
	return nil
}

func (e *vsymEtcd) header() *pb.ResponseHeader { return &pb.ResponseHeader{Revision: e.rev} }

func (e *vsymEtcd) kv(k string, en *vsymEtcdEntry) *mvccpb.KeyValue {
	return &mvccpb.KeyValue{Key: []byte(k), Value: append([]byte(nil), en.value...), CreateRevision: en.create, ModRevision: en.mod, Version: en.version, Lease: int64(en.lease)}
}

func (e *vsymEtcd) keysIn(key, end string) []string {
	var ks []string
	for k := range e.data {
		if end == "" {
			if k == key {
				ks = append(ks, k)
			}
		} else if k >= key && (end == "\x00" || k < end) {
			ks = append(ks, k)
		}
	}
	sort.Strings(ks)
	return ks
}

func (e *vsymEtcd) emit(ev *clientv3.Event) {
	e.history = append(e.history, ev)
	e.histRev = append(e.histRev, e.rev)
	for _, w := range e.watches {
		if w.closed || !w.matches(string(ev.Kv.Key)) {
			continue
		}
		w.ch <- clientv3.WatchResponse{Header: *e.header(), Events: []*clientv3.Event{ev}}
	}
}

func (w *vsymEtcdWatch) matches(k string) bool {
	if w.end == "" {
		return k == w.key
	}
	return k >= w.key && (w.end == "\x00" || k < w.end)
}

// bump opens a new revision unless one atomic operation (a transaction, a lease ending, a batch)
// is in progress: all its writes share one revision, as in etcd.
func (e *vsymEtcd) bump() {
	if e.atomic == 0 {
		e.rev++
	} else if e.atomic == 1 {
		e.rev++
		e.atomic = 2
	}
}

// atomically runs f as one revision.
func (e *vsymEtcd) atomically(f func()) {
	if e.atomic != 0 {
		f()
		return
	}
	e.atomic = 1
	f()
	e.atomic = 0
}

func (e *vsymEtcd) put(key string, val []byte, lease clientv3.LeaseID) *mvccpb.KeyValue {
	e.bump()
	var prev *mvccpb.KeyValue
	en, ok := e.data[key]
	if ok {
		prev = e.kv(key, en)
		en.value, en.mod, en.version, en.lease = append([]byte(nil), val...), e.rev, en.version+1, lease
	} else {
		en = &vsymEtcdEntry{value: append([]byte(nil), val...), create: e.rev, mod: e.rev, version: 1, lease: lease}
		e.data[key] = en
	}
	e.emit(&clientv3.Event{Type: mvccpb.PUT, Kv: e.kv(key, en), PrevKv: prev})
	return prev
}

func (e *vsymEtcd) del(key, end string) int64 {
	ks := e.keysIn(key, end)
	if len(ks) == 0 {
		return 0
	}
	e.bump()
	for _, k := range ks {
		prev := e.kv(k, e.data[k])
		delete(e.data, k)
		e.emit(&clientv3.Event{Type: mvccpb.DELETE, Kv: &mvccpb.KeyValue{Key: []byte(k), ModRevision: e.rev}, PrevKv: prev})
	}
	return int64(len(ks))
}

func (e *vsymEtcd) rangeResp(key, end string) *pb.RangeResponse {
	resp := &pb.RangeResponse{Header: e.header()}
	for _, k := range e.keysIn(key, end) {
		resp.Kvs = append(resp.Kvs, e.kv(k, e.data[k]))
	}
	resp.Count = int64(len(resp.Kvs))
	return resp
}

// ---- clientv3.KV -------------------------------------------------------------------------

func (f *vsymEtcdFacade) leaseFor(op clientv3.Op) clientv3.LeaseID {
	return clientv3.LeaseID(vsym_FieldInt64(op, "leaseID"))
}

func (f *vsymEtcdFacade) Put(ctx context.Context, key, val string, opts ...clientv3.OpOption) (*clientv3.PutResponse, error) {
	if err := f.e.hookAs(f.who, "put", key); err != nil {
		return nil, err
	}
	defer f.e.lock()()
	op := clientv3.OpPut(key, val, opts...)
	lease := f.leaseFor(op)
	if lease != 0 {
		if l, ok := f.e.leases[lease]; !ok || !l.alive {
			return nil, errors.New("etcdserver: requested lease not found")
		}
	}
	f.e.put(key, []byte(val), lease)
	return &clientv3.PutResponse{Header: f.e.header()}, nil
}

func (f *vsymEtcdFacade) Get(ctx context.Context, key string, opts ...clientv3.OpOption) (*clientv3.GetResponse, error) {
	if err := f.e.hookAs(f.who, "get", key); err != nil {
		return nil, err
	}
	defer f.e.lock()()
	op := clientv3.OpGet(key, opts...)
	return (*clientv3.GetResponse)(f.e.rangeResp(key, string(op.RangeBytes()))), nil
}

func (f *vsymEtcdFacade) Delete(ctx context.Context, key string, opts ...clientv3.OpOption) (*clientv3.DeleteResponse, error) {
	if err := f.e.hookAs(f.who, "delete", key); err != nil {
		return nil, err
	}
	defer f.e.lock()()
	op := clientv3.OpDelete(key, opts...)
	n := f.e.del(key, string(op.RangeBytes()))
	return &clientv3.DeleteResponse{Header: f.e.header(), Deleted: n}, nil
}

func (f *vsymEtcdFacade) Compact(ctx context.Context, rev int64, opts ...clientv3.CompactOption) (*clientv3.CompactResponse, error) {
	return &clientv3.CompactResponse{Header: f.e.header()}, nil
}

func (f *vsymEtcdFacade) Do(ctx context.Context, op clientv3.Op) (clientv3.OpResponse, error) {
	return clientv3.OpResponse{}, errors.New("vsym: KV.Do not modelled")
}

func (f *vsymEtcdFacade) Txn(ctx context.Context) clientv3.Txn { return &vsymEtcdTxn{f: f} }

type vsymEtcdTxn struct {
	f          *vsymEtcdFacade
	cmps       []clientv3.Cmp
	then, els_ []clientv3.Op
}

func (t *vsymEtcdTxn) If(cs ...clientv3.Cmp) clientv3.Txn { t.cmps = append(t.cmps, cs...); return t }
func (t *vsymEtcdTxn) Then(ops ...clientv3.Op) clientv3.Txn {
	t.then = append(t.then, ops...)
	return t
}
func (t *vsymEtcdTxn) Else(ops ...clientv3.Op) clientv3.Txn {
	t.els_ = append(t.els_, ops...)
	return t
}

func (e *vsymEtcd) holds(c clientv3.Cmp) bool {
	en := e.data[string(c.Key)]
	var have, want int64
	switch c.Target {
	case pb.Compare_VALUE:
		var hv []byte
		if en != nil {
			hv = en.value
		}
		wv := c.TargetUnion.(*pb.Compare_Value).Value
		eq := en != nil && vsym_BytesEq(hv, wv)
		switch c.Result {
		case pb.Compare_EQUAL:
			return eq
		case pb.Compare_NOT_EQUAL:
			return !eq
		}
		return false
	case pb.Compare_CREATE:
		want = c.TargetUnion.(*pb.Compare_CreateRevision).CreateRevision
		if en != nil {
			have = en.create
		}
	case pb.Compare_MOD:
		want = c.TargetUnion.(*pb.Compare_ModRevision).ModRevision
		if en != nil {
			have = en.mod
		}
	case pb.Compare_VERSION:
		want = c.TargetUnion.(*pb.Compare_Version).Version
		if en != nil {
			have = en.version
		}
	default:
		return false
	}
	switch c.Result {
	case pb.Compare_EQUAL:
		return have == want
	case pb.Compare_NOT_EQUAL:
		return have != want
	case pb.Compare_GREATER:
		return have > want
	case pb.Compare_LESS:
		return have < want
	}
	return false
}

func (t *vsymEtcdTxn) Commit() (*clientv3.TxnResponse, error) {
	e := t.f.e
	key := ""
	if len(t.cmps) > 0 {
		key = string(t.cmps[0].Key)
	}
	if err := e.hookAs(t.f.who, "txn", key); err != nil {
		return nil, err
	}
	defer e.lock()()
	ok := true
	for _, c := range t.cmps {
		if !e.holds(c) {
			ok = false
		}
	}
	ops := t.then
	if !ok {
		ops = t.els_
	}
	resp := &pb.TxnResponse{Header: e.header(), Succeeded: ok}
	var txnErr error
	e.atomically(func() {
		for _, op := range ops {
			k, end := string(op.KeyBytes()), string(op.RangeBytes())
			switch {
			case op.IsGet():
				resp.Responses = append(resp.Responses, &pb.ResponseOp{Response: &pb.ResponseOp_ResponseRange{ResponseRange: e.rangeResp(k, end)}})
			case op.IsPut():
				lease := t.f.leaseFor(op)
				if lease != 0 {
					if l, found := e.leases[lease]; !found || !l.alive {
						txnErr = errors.New("etcdserver: requested lease not found")
						return
					}
				}
				e.put(k, op.ValueBytes(), lease)
				resp.Responses = append(resp.Responses, &pb.ResponseOp{Response: &pb.ResponseOp_ResponsePut{ResponsePut: &pb.PutResponse{Header: e.header()}}})
			case op.IsDelete():
				n := e.del(k, end)
				resp.Responses = append(resp.Responses, &pb.ResponseOp{Response: &pb.ResponseOp_ResponseDeleteRange{ResponseDeleteRange: &pb.DeleteRangeResponse{Header: e.header(), Deleted: n}}})
			}
		}
	})
	if txnErr != nil {
		return nil, txnErr
	}
	resp.Header = e.header()
	if e.onOpDone != nil {
		// the reply travels back: the caller may be preempted before it sees it (natively the
		// model's lock is not held here)
		un := e.unlockForHook()
		e.onOpDone(t.f.who, "txn", key)
		un()
	}
	return (*clientv3.TxnResponse)(resp), nil
}

// ---- clientv3.Watcher --------------------------------------------------------------------

func (f *vsymEtcdFacade) Watch(ctx context.Context, key string, opts ...clientv3.OpOption) clientv3.WatchChan {
	e := f.e
	op := clientv3.OpGet(key, opts...)
	w := &vsymEtcdWatch{key: key, end: string(op.RangeBytes()), ch: make(chan clientv3.WatchResponse, 64), ctx: ctx, startRev: op.Rev()}
	_ = e.hookAs(f.who, "watch", key)
	defer e.lock()()
	if w.startRev > 0 {
		// replay history from the requested revision
		for i, ev := range e.history {
			if e.histRev[i] >= w.startRev && w.matches(string(ev.Kv.Key)) {
				w.ch <- clientv3.WatchResponse{Header: pb.ResponseHeader{Revision: e.histRev[i]}, Events: []*clientv3.Event{ev}}
			}
		}
	}
	e.watches = append(e.watches, w)
	return w.ch
}

// interrupt closes every open watch stream (etcd leader change, compaction, network blip).
func (e *vsymEtcd) interruptWatches() {
	defer e.lock()()
	for _, w := range e.watches {
		if !w.closed {
			w.closed = true
			close(w.ch)
		}
	}
}

func (f *vsymEtcdFacade) RequestProgress(ctx context.Context) error { return nil }

// Close (shared by Watcher and Lease) ends this client's streams.
func (f *vsymEtcdFacade) Close() error { return nil }

// ---- clientv3.Lease ----------------------------------------------------------------------

func (f *vsymEtcdFacade) Grant(ctx context.Context, ttl int64) (*clientv3.LeaseGrantResponse, error) {
	if err := f.e.hookAs(f.who, "grant", f.who); err != nil {
		return nil, err
	}
	defer f.e.lock()()
	f.e.nextID++
	id := clientv3.LeaseID(1000 + f.e.nextID)
	f.e.leases[id] = &vsymEtcdLease{id: id, alive: true}
	f.lastLease = id
	return &clientv3.LeaseGrantResponse{ResponseHeader: f.e.header(), ID: id, TTL: ttl}, nil
}

// expire ends a lease: its keys are deleted (watchers see the deletes) and its keep-alive
// streams close, which is how a session learns that it is dead.
func (e *vsymEtcd) expire(id clientv3.LeaseID) {
	defer e.lock()()
	e.expireLocked(id)
}

func (e *vsymEtcd) expireLocked(id clientv3.LeaseID) {
	l, ok := e.leases[id]
	if !ok || !l.alive {
		return
	}
	l.alive = false
	var ks []string
	for k, en := range e.data {
		if en.lease == id {
			ks = append(ks, k)
		}
	}
	sort.Strings(ks)
	e.atomically(func() { // a lease's keys go in one revision
		for _, k := range ks {
			e.del(k, "")
		}
	})
	for _, k := range l.ka {
		k.close()
	}
	l.ka = nil
}

func (f *vsymEtcdFacade) Revoke(ctx context.Context, id clientv3.LeaseID) (*clientv3.LeaseRevokeResponse, error) {
	if err := f.e.hookAs(f.who, "revoke", f.who); err != nil {
		return nil, err
	}
	defer f.e.lock()()
	f.e.expireLocked(id)
	return &clientv3.LeaseRevokeResponse{Header: f.e.header()}, nil
}

func (f *vsymEtcdFacade) TimeToLive(ctx context.Context, id clientv3.LeaseID, opts ...clientv3.LeaseOption) (*clientv3.LeaseTimeToLiveResponse, error) {
	return nil, errors.New("vsym: TimeToLive not modelled")
}

func (f *vsymEtcdFacade) Leases(ctx context.Context) (*clientv3.LeaseLeasesResponse, error) {
	return nil, errors.New("vsym: Leases not modelled")
}

func (f *vsymEtcdFacade) KeepAlive(ctx context.Context, id clientv3.LeaseID) (<-chan *clientv3.LeaseKeepAliveResponse, error) {
	defer f.e.lock()()
	l, ok := f.e.leases[id]
	if !ok || !l.alive {
		return nil, errors.New("etcdserver: requested lease not found")
	}
	k := &vsymEtcdKA{ch: make(chan *clientv3.LeaseKeepAliveResponse, 1)}
	l.ka = append(l.ka, k)
	// like the real client, the stream ends when the caller's context is cancelled
	go func() {
		<-ctx.Done()
		k.close()
	}()
	return k.ch, nil
}

func (f *vsymEtcdFacade) KeepAliveOnce(ctx context.Context, id clientv3.LeaseID) (*clientv3.LeaseKeepAliveResponse, error) {
	return nil, errors.New("vsym: KeepAliveOnce not modelled")
}

// snapshotOf returns key -> value of everything under prefix (for assertions).
func (e *vsymEtcd) under(prefix string) map[string]string {
	defer e.lock()()
	out := map[string]string{}
	for k, en := range e.data {
		if strings.HasPrefix(k, prefix) {
			out[k] = string(en.value)
		}
	}
	return out
}
