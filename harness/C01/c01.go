package storage

import "context"

// C01 — an acknowledged produce is durable in S3 (concurrent producers, any upload failure,
// and after a restart).
func VsymC01_Durable() {
	// shapes: {producers, upload failures, preemption bound (0 = unbounded), 1 = producers preempted
	// at S3 calls and blocking only, delay bound (0 = unbounded)}
	shape := [][5]int{{2, 1, 2, 0, 0}, {3, 0, 0, 1, 2}, {3, 1, 0, 1, 2}, {2, 2, 3, 0, 0}, {2, 0, 0, 0, 4}, {3, 1, 0, 0, 3}}[vsym_Param("shape")]
	w := vsymNewConcWorld(true)
	w.s3EventsOnly = shape[3] == 1
	w.s3.budget = shape[1]
	vsym_PreemptionBound(shape[2])
	vsym_DelayBound(shape[4])
	vsym_ExploreEvents() // preemption at S3 calls, publish callbacks and producer steps, and when blocked
	for i := 0; i < shape[0]; i++ {
		vsym_Go(w.producer(i, "C01"))
	}
	vsym_Join()
	vsym_Reach("quiescent")
	for _, a := range w.acks {
		vsym_Assert(vsymDurable(w.s3, a), "C01/acknowledged-batch-is-in-an-indexed-s3-segment")
	}
	// restart: a new log over the same S3 reads every acknowledged batch at its offset
	l2 := vsymNewLog(w.s3, 0, PartitionLogConfig{}, nil)
	_, err := l2.RestoreFromS3(context.Background())
	if len(w.acks) > 0 {
		vsym_Assert(err == nil, "C01/restart-opens-the-partition")
		for _, a := range w.acks {
			got, err := l2.Read(context.Background(), a.base, int32(len(a.bytes)))
			vsym_Assert(err == nil && vsym_BytesEq(got, a.bytes), "C01/acknowledged-batch-readable-after-restart")
		}
	}
}

func VsymC01_Twin() {
	w := vsymNewConcWorld(false)
	vsym_Go(w.producer(0, "C01"))
	vsym_Join()
	vsym_Assert(len(w.acks) == 0, "C01/twin")
}
