package main

import (
	"context"
	"encoding/binary"
	"errors"
	"io"
	"log/slog"
	"sort"
	"strings"
	"sync"
	"time"

	"github.com/twmb/franz-go/pkg/kmsg"

	metadatapb "github.com/KafScale/platform/pkg/gen/metadata"
	"github.com/KafScale/platform/pkg/metadata"
	"github.com/KafScale/platform/pkg/protocol"
	"github.com/KafScale/platform/pkg/storage"
)

// Shared harness library for the broker-handler properties (C11, C19, C24, C25): the real
// handler built by newHandler over the real InMemoryStore and a monitoring S3 model.

var vsymErrS3b = errors.New("vsym: injected S3 failure")

type vsymMonS3 struct {
	objs    map[string][]byte
	writes  []string // every mutating call, in order
	reads   []string
	failUp  func(key string) bool
	failErr error                // the error an injected failure returns (default: a plain error)
	onCall  func(op, key string) // scheduling hook, called before an upload takes effect
	mu      sync.Mutex           // native runs only: segment and index are uploaded from different goroutines
}

func (s *vsymMonS3) lock() func() {
	if vsym_Symbolic() {
		return func() {}
	}
	s.mu.Lock()
	return s.mu.Unlock
}

func newVsymMonS3() *vsymMonS3 { return &vsymMonS3{objs: map[string][]byte{}} }

func (s *vsymMonS3) put(key string, body []byte) error {
	if s.onCall != nil {
		s.onCall("upload", key)
	}
	defer s.lock()()
	if s.failUp != nil && s.failUp(key) {
		if s.failErr != nil {
			return s.failErr
		}
		return vsymErrS3b
	}
	s.writes = append(s.writes, "put:"+key)
	s.objs[key] = append([]byte(nil), body...)
	return nil
}
func (s *vsymMonS3) UploadSegment(ctx context.Context, key string, body []byte) error {
	return s.put(key, body)
}
func (s *vsymMonS3) UploadIndex(ctx context.Context, key string, body []byte) error {
	return s.put(key, body)
}
func (s *vsymMonS3) DeleteSegment(ctx context.Context, key string) error {
	defer s.lock()()
	s.writes = append(s.writes, "del:"+key)
	delete(s.objs, key)
	return nil
}
func (s *vsymMonS3) DeleteIndex(ctx context.Context, key string) error {
	defer s.lock()()
	s.writes = append(s.writes, "del:"+key)
	delete(s.objs, key)
	return nil
}
func (s *vsymMonS3) DownloadSegment(ctx context.Context, key string, rng *storage.ByteRange) ([]byte, error) {
	defer s.lock()()
	s.reads = append(s.reads, key)
	d, ok := s.objs[key]
	if !ok {
		return nil, storage.ErrNotFound
	}
	if rng == nil {
		return append([]byte(nil), d...), nil
	}
	if rng.Start < 0 || rng.Start >= int64(len(d)) || rng.End < rng.Start {
		return nil, errors.New("vsym: invalid range")
	}
	end := rng.End
	if end >= int64(len(d)) {
		end = int64(len(d)) - 1
	}
	return append([]byte(nil), d[rng.Start:end+1]...), nil
}
func (s *vsymMonS3) DownloadIndex(ctx context.Context, key string) ([]byte, error) {
	defer s.lock()()
	s.reads = append(s.reads, key)
	d, ok := s.objs[key]
	if !ok {
		return nil, storage.ErrNotFound
	}
	return append([]byte(nil), d...), nil
}
func (s *vsymMonS3) ListSegments(ctx context.Context, prefix string) ([]storage.S3Object, error) {
	defer s.lock()()
	keys := make([]string, 0, len(s.objs))
	for k := range s.objs {
		if strings.HasPrefix(k, prefix) {
			keys = append(keys, k)
		}
	}
	sort.Strings(keys)
	out := make([]storage.S3Object, 0, len(keys))
	for _, k := range keys {
		out = append(out, storage.S3Object{Key: k, Size: int64(len(s.objs[k]))})
	}
	return out, nil
}
func (s *vsymMonS3) EnsureBucket(ctx context.Context) error { return nil }

func vsymPinClockB() {
	if vsym_Symbolic() {
		vsym_Override("time.Now", func() time.Time { return time.Unix(1700000000, 0) })
	}
}

type vsymBroker struct {
	h     *handler
	store *metadata.InMemoryStore
	s3    *vsymMonS3
}

func vsymTopic(name string, parts int) protocol.MetadataTopic {
	t := protocol.MetadataTopic{Topic: kmsg.StringPtr(name), TopicID: metadata.TopicIDForName(name)}
	for p := 0; p < parts; p++ {
		t.Partitions = append(t.Partitions, protocol.MetadataPartition{Partition: int32(p), Leader: 1, Replicas: []int32{1}, ISR: []int32{1}})
	}
	return t
}

func vsymNewBroker() *vsymBroker {
	vsymPinClockB()
	b := &vsymBroker{s3: newVsymMonS3()}
	info := protocol.MetadataBroker{NodeID: 1, Host: "b1", Port: 9092}
	b.store = metadata.NewInMemoryStore(metadata.ClusterMetadata{
		Brokers:      []protocol.MetadataBroker{info},
		ControllerID: 1,
		Topics:       []protocol.MetadataTopic{vsymTopic("t0", 2), vsymTopic("t1", 1)},
	})
	b.h = newHandler(b.store, b.s3, info, slog.New(slog.NewTextHandler(io.Discard, nil)))
	return b
}

// vsymBatchB: a Kafka v2 batch frame with one record slot (see harness/stor/lib.go).
func vsymBatchB(count int32, payload []byte) []byte {
	bts := make([]byte, 61+len(payload))
	binary.BigEndian.PutUint32(bts[8:12], uint32(len(bts)-12))
	bts[16] = 2
	binary.BigEndian.PutUint32(bts[23:27], uint32(count-1))
	binary.BigEndian.PutUint32(bts[57:61], uint32(count))
	copy(bts[61:], payload)
	return bts
}

type vsymTP struct {
	topic string
	part  int32
}

func vsymProduceReq(acks int16, tps []vsymTP, payload []byte) *kmsg.ProduceRequest {
	req := kmsg.NewPtrProduceRequest()
	req.Version = 7
	req.Acks = acks
	req.TimeoutMillis = 1000
	for _, tp := range tps {
		var t *kmsg.ProduceRequestTopic
		for i := range req.Topics {
			if req.Topics[i].Topic == tp.topic {
				t = &req.Topics[i]
			}
		}
		if t == nil {
			nt := kmsg.NewProduceRequestTopic()
			nt.Topic = tp.topic
			req.Topics = append(req.Topics, nt)
			t = &req.Topics[len(req.Topics)-1]
		}
		p := kmsg.NewProduceRequestTopicPartition()
		p.Partition = tp.part
		p.Records = vsymBatchB(1, payload)
		t.Partitions = append(t.Partitions, p)
	}
	return req
}

// vsymProduceCodes sends the request through the real Handle and returns the error code per
// topic-partition of the decoded reply (nil map when acks == 0 and no reply is due).
func (b *vsymBroker) vsymProduce(req *kmsg.ProduceRequest) map[vsymTP]int16 {
	hdr := &protocol.RequestHeader{APIKey: 0, APIVersion: req.Version, CorrelationID: 77}
	out, err := b.h.Handle(context.Background(), hdr, req)
	vsym_Assert(err == nil, "broker/handle-no-error")
	if out == nil {
		return nil
	}
	vsym_Assert(len(out) >= 4 && int32(binary.BigEndian.Uint32(out[:4])) == 77, "broker/correlation-id-echoed")
	resp := kmsg.NewPtrProduceResponse()
	resp.Version = req.Version
	vsym_Assert(resp.ReadFrom(out[4:]) == nil, "broker/produce-reply-decodes")
	codes := map[vsymTP]int16{}
	for _, t := range resp.Topics {
		for _, p := range t.Partitions {
			_, dup := codes[vsymTP{t.Topic, p.Partition}]
			vsym_Assert(!dup, "broker/one-reply-entry-per-partition")
			codes[vsymTP{t.Topic, p.Partition}] = p.ErrorCode
		}
	}
	return codes
}

func (b *vsymBroker) appended(tp vsymTP) bool {
	b.h.logMu.RLock()
	defer b.h.logMu.RUnlock()
	if parts, ok := b.h.logs[tp.topic]; ok {
		if l, ok := parts[tp.part]; ok {
			return l.BufferedHighWatermark() > 0
		}
	}
	return false
}

func vsymFetchReq(tps []vsymTP, offset int64) *kmsg.FetchRequest {
	req := kmsg.NewPtrFetchRequest()
	req.Version = 11
	req.MaxWaitMillis = 0
	req.MaxBytes = 1 << 20
	for _, tp := range tps {
		var t *kmsg.FetchRequestTopic
		for i := range req.Topics {
			if req.Topics[i].Topic == tp.topic {
				t = &req.Topics[i]
			}
		}
		if t == nil {
			nt := kmsg.NewFetchRequestTopic()
			nt.Topic = tp.topic
			req.Topics = append(req.Topics, nt)
			t = &req.Topics[len(req.Topics)-1]
		}
		p := kmsg.NewFetchRequestTopicPartition()
		p.Partition = tp.part
		p.FetchOffset = offset
		p.PartitionMaxBytes = 1 << 20
		t.Partitions = append(t.Partitions, p)
	}
	return req
}

type vsymFetched struct {
	code int16
	data []byte
	hw   int64
}

func (b *vsymBroker) vsymFetch(req *kmsg.FetchRequest) map[vsymTP]vsymFetched {
	hdr := &protocol.RequestHeader{APIKey: 1, APIVersion: req.Version, CorrelationID: 78}
	out, err := b.h.Handle(context.Background(), hdr, req)
	vsym_Assert(err == nil && len(out) >= 4, "broker/fetch-handled")
	resp := kmsg.NewPtrFetchResponse()
	resp.Version = req.Version
	vsym_Assert(resp.ReadFrom(out[4:]) == nil, "broker/fetch-reply-decodes")
	res := map[vsymTP]vsymFetched{}
	for _, t := range resp.Topics {
		for _, p := range t.Partitions {
			res[vsymTP{t.Topic, p.Partition}] = vsymFetched{p.ErrorCode, p.RecordBatches, p.HighWatermark}
		}
	}
	return res
}

// vsymMonStore counts every mutating metadata.Store call that reaches the store.
type vsymMonStore struct {
	*metadata.InMemoryStore
	mutations []string
}

func (s *vsymMonStore) note(op string) { s.mutations = append(s.mutations, op) }
func (s *vsymMonStore) UpdateOffsets(ctx context.Context, topic string, partition int32, lastOffset int64) error {
	s.note("UpdateOffsets")
	return s.InMemoryStore.UpdateOffsets(ctx, topic, partition, lastOffset)
}
func (s *vsymMonStore) CommitConsumerOffset(ctx context.Context, group, topic string, partition int32, offset int64, md string) error {
	s.note("CommitConsumerOffset")
	return s.InMemoryStore.CommitConsumerOffset(ctx, group, topic, partition, offset, md)
}
func (s *vsymMonStore) PutConsumerGroup(ctx context.Context, g *metadatapb.ConsumerGroup) error {
	s.note("PutConsumerGroup")
	return s.InMemoryStore.PutConsumerGroup(ctx, g)
}
func (s *vsymMonStore) DeleteConsumerGroup(ctx context.Context, id string) error {
	s.note("DeleteConsumerGroup")
	return s.InMemoryStore.DeleteConsumerGroup(ctx, id)
}
func (s *vsymMonStore) UpdateTopicConfig(ctx context.Context, cfg *metadatapb.TopicConfig) error {
	s.note("UpdateTopicConfig")
	return s.InMemoryStore.UpdateTopicConfig(ctx, cfg)
}
func (s *vsymMonStore) CreatePartitions(ctx context.Context, topic string, n int32) error {
	s.note("CreatePartitions")
	return s.InMemoryStore.CreatePartitions(ctx, topic, n)
}
func (s *vsymMonStore) CreateTopic(ctx context.Context, spec metadata.TopicSpec) (*protocol.MetadataTopic, error) {
	s.note("CreateTopic")
	return s.InMemoryStore.CreateTopic(ctx, spec)
}
func (s *vsymMonStore) DeleteTopic(ctx context.Context, name string) error {
	s.note("DeleteTopic")
	return s.InMemoryStore.DeleteTopic(ctx, name)
}

// vsymNewMonBroker: like vsymNewBroker, with the store behind the mutation monitor.
func vsymNewMonBroker() (*vsymBroker, *vsymMonStore) {
	vsymPinClockB()
	b := &vsymBroker{s3: newVsymMonS3()}
	info := protocol.MetadataBroker{NodeID: 1, Host: "b1", Port: 9092}
	b.store = metadata.NewInMemoryStore(metadata.ClusterMetadata{
		Brokers:      []protocol.MetadataBroker{info},
		ControllerID: 1,
		Topics:       []protocol.MetadataTopic{vsymTopic("t0", 2), vsymTopic("t1", 1)},
	})
	mon := &vsymMonStore{InMemoryStore: b.store}
	b.h = newHandler(mon, b.s3, info, slog.New(slog.NewTextHandler(io.Discard, nil)))
	return b, mon
}

// vsymCall sends any request through Handle as the given client id and decodes the reply with
// the standard codec at the request's version.
func (b *vsymBroker) vsymCall(client string, req kmsg.Request) kmsg.Response {
	cid := client
	hdr := &protocol.RequestHeader{APIKey: req.Key(), APIVersion: req.GetVersion(), CorrelationID: 4711, ClientID: &cid}
	out, err := b.h.Handle(context.Background(), hdr, req)
	vsym_Assert(err == nil, "broker/handle-no-error")
	if out == nil {
		return nil
	}
	vsym_Assert(len(out) >= 4 && int32(binary.BigEndian.Uint32(out[:4])) == 4711, "broker/correlation-id-echoed")
	resp := req.ResponseKind()
	resp.SetVersion(req.GetVersion())
	body := out[4:]
	if resp.IsFlexible() && req.Key() != 18 {
		vsym_Assert(len(body) >= 1 && body[0] == 0, "broker/flexible-response-header")
		body = body[1:]
	}
	vsym_Assert(resp.ReadFrom(body) == nil, "broker/reply-decodes-at-request-version")
	return resp
}
