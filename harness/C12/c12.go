package broker

import "time"

// C12 — a completed rebalance assigns each partition to exactly one subscriber.

// checkAssignments: whenever the group is Stable, the assignments the coordinator hands out
// partition the partitions of every subscribed topic among members that subscribe to it now.
func (w *vsymWorld) checkAssignments() {
	st := w.state()
	if st == nil || st.state != groupStateStable {
		return
	}
	vsym_Reach("stable")
	owner := map[string]map[int32]string{}
	for _, id := range w.currentMembers() {
		resp := w.sync(id, st.generationID)
		vsym_Assert(resp.ErrorCode == 0, "C12/stable-member-sync-ok")
		asg, ok := vsymDecodeAssignment(resp.MemberAssignment)
		vsym_Assert(ok, "C12/assignment-decodes")
		for topic, parts := range asg {
			subscribed := false
			for _, s := range st.members[id].topics {
				if s == topic {
					subscribed = true
				}
			}
			vsym_Assert(subscribed, "C12/assigned-only-subscribed-topics")
			for _, p := range parts {
				if owner[topic] == nil {
					owner[topic] = map[int32]string{}
				}
				_, dup := owner[topic][p]
				vsym_Assert(!dup, "C12/partition-assigned-once")
				owner[topic][p] = id
			}
		}
	}
	for ti, topic := range vsymTopics {
		anySub := false
		for _, id := range w.currentMembers() {
			for _, s := range st.members[id].topics {
				if s == topic {
					anySub = true
				}
			}
		}
		if !anySub {
			continue
		}
		for p := 0; p < w.nparts[ti]; p++ {
			_, has := owner[topic][int32(p)]
			vsym_Assert(has, "C12/every-partition-assigned")
		}
	}
}

func (w *vsymWorld) anyResubscribed() bool {
	for _, v := range w.resubscribed {
		if v {
			return true
		}
	}
	return false
}

func VsymC12_Assignments() {
	k := vsym_Param("k")
	w := vsymNewWorld("C12", vsym_Param("n0"), vsym_Param("n1"))
	w.resubscribed = map[string]bool{}
	for step := 0; step < k; step++ {
		switch vsym_Choose("op", vsym_Param("ops")) {
		case 4: // a member falls silent past its session timeout and the cleanup tick runs
			st := w.state()
			if len(w.ids) == 0 || st == nil {
				vsym_Assume(false)
			}
			id := w.ids[vsym_Choose("who", len(w.ids))]
			if m := st.members[id]; m != nil {
				m.lastHeartbeat = m.lastHeartbeat.Add(-11 * time.Second)
			}
			w.c.cleanupGroups()
			w.resubscribed = map[string]bool{}
		case 5: // a client joins with a member id the coordinator does not know (kept from an earlier life)
			if len(w.ids) >= 3 {
				vsym_Assume(false)
			}
			w.join("ghost-7", vsymSubsFromMask(1+vsym_Choose("subs", 3)))
		case 0: // a new member joins
			if len(w.ids) >= 3 {
				vsym_Assume(false)
			}
			w.join("", vsymSubsFromMask(1+vsym_Choose("subs", 3)))
		case 1: // an existing member (re)joins, possibly with another subscription
			if len(w.ids) == 0 {
				vsym_Assume(false)
			}
			id := w.ids[vsym_Choose("who", len(w.ids))]
			subs := vsymSubsFromMask(1 + vsym_Choose("subs", 3))
			st := w.state()
			if st != nil && st.state == groupStateStable && st.members[id] != nil && !vsymSameTopics(st.members[id].topics, subs) {
				w.resubscribed[id] = true
			}
			gen := int32(0)
			if st != nil {
				gen = st.generationID
			}
			w.join(id, subs)
			if st2 := w.state(); st2 != nil && st2.generationID != gen {
				w.resubscribed = map[string]bool{}
			}
		case 2: // a member syncs at the current generation
			if len(w.ids) == 0 || w.state() == nil {
				vsym_Assume(false)
			}
			w.sync(w.ids[vsym_Choose("who", len(w.ids))], w.state().generationID)
		case 3:
			if len(w.ids) == 0 {
				vsym_Assume(false)
			}
			w.leave(w.ids[vsym_Choose("who", len(w.ids))])
			w.resubscribed = map[string]bool{}
		}
		w.checkAssignments()
	}
}

func vsymSameTopics(a, b []string) bool {
	if len(a) != len(b) {
		return false
	}
	for i := range a {
		if a[i] != b[i] {
			return false
		}
	}
	return true
}

func VsymC12_Twin() {
	w := vsymNewWorld("C12", 2, 1)
	r := w.join("", []string{"t0"})
	s := w.sync(r.MemberID, r.Generation)
	asg, _ := vsymDecodeAssignment(s.MemberAssignment)
	vsym_Assert(len(asg["t0"]) != 2+vsym_Choose("z", 1), "C12/twin")
}
