package main

import (
	"context"
	"encoding/binary"
	"errors"
	"io"
	"log/slog"
	"net"
	"time"

	"github.com/twmb/franz-go/pkg/kmsg"

	"github.com/KafScale/platform/pkg/metadata"
	"github.com/KafScale/platform/pkg/protocol"
)

// C27 — the proxy answers every requested partition once, without duplicate writes.
//
// A produce request for t/0, t/1 and u/0 goes through the real groupPartitionsByBroker and
// forwardProduce. The routing table is the real PartitionRouter over the etcd model (t/0 owned
// by broker 1, t/1 by broker 2, u/0 unowned or owned, by choice). Two scripted brokers sit
// behind in-memory connections; per request and partition a broker answers, by the explorer's
// choice: success, NOT_LEADER_OR_FOLLOWER, another error, leaves the partition out of its reply,
// or drops the connection after reading the request. Connections to a broker that is not in the
// connection pool (the round-robin fallback after NOT_LEADER) are handed out by the harness in
// place of a TCP dial.

type vsymSend struct {
	backend string
	outcome int // 0 success 1 not-leader 2 other error 3 omitted 4 connection dropped
}

type vsymCluster struct {
	sends    map[vsymTP27][]vsymSend
	success  map[vsymTP27]int
	names    map[[16]byte]string // topic id -> name (the brokers know both)
	oddities int
}

type vsymTP27 struct {
	topic string
	part  int32
}

type vsymBackendConn struct {
	name    string
	c       *vsymCluster
	in      []byte
	out     []byte
	closed  bool
	dropped bool
}

func (b *vsymBackendConn) Write(p []byte) (int, error) {
	if b.closed || b.dropped {
		return 0, errors.New("vsym: connection closed")
	}
	b.in = append(b.in, p...)
	for len(b.in) >= 4 {
		n := int(binary.BigEndian.Uint32(b.in[:4]))
		if len(b.in) < 4+n {
			break
		}
		frame := b.in[4 : 4+n]
		b.in = b.in[4+n:]
		b.handle(frame)
	}
	return len(p), nil
}

func (b *vsymBackendConn) handle(frame []byte) {
	hdr, req, err := protocol.ParseRequest(frame)
	if err != nil {
		b.dropped = true
		return
	}
	if fr, isFetch := req.(*kmsg.FetchRequest); isFetch {
		b.handleFetch(hdr, fr)
		return
	}
	pr, ok := req.(*kmsg.ProduceRequest)
	if !ok {
		b.dropped = true
		return
	}
	resp := kmsg.NewPtrProduceResponse()
	resp.Version = hdr.APIVersion
	drop := false
	for _, t := range pr.Topics {
		rt := kmsg.NewProduceResponseTopic()
		rt.Topic = t.Topic
		for _, p := range t.Partitions {
			tp := vsymTP27{t.Topic, p.Partition}
			outcome := vsym_Choose("backend-outcome", 5)
			b.c.sends[tp] = append(b.c.sends[tp], vsymSend{b.name, outcome})
			rp := kmsg.NewProduceResponseTopicPartition()
			rp.Partition = p.Partition
			switch outcome {
			case 0:
				b.c.success[tp]++
				rp.BaseOffset = 7
			case 1:
				rp.ErrorCode = protocol.NOT_LEADER_OR_FOLLOWER
			case 2:
				rp.ErrorCode = protocol.UNKNOWN_TOPIC_OR_PARTITION
			case 3:
				continue
			case 4:
				drop = true
			}
			rt.Partitions = append(rt.Partitions, rp)
		}
		resp.Topics = append(resp.Topics, rt)
	}
	if drop {
		b.dropped = true
		return
	}
	payload := protocol.EncodeResponse(hdr.CorrelationID, hdr.APIVersion, resp)
	b.out = binary.BigEndian.AppendUint32(b.out, uint32(len(payload)))
	b.out = append(b.out, payload...)
}

func (b *vsymBackendConn) handleFetch(hdr *protocol.RequestHeader, fr *kmsg.FetchRequest) {
	resp := kmsg.NewPtrFetchResponse()
	resp.Version = hdr.APIVersion
	drop := false
	for _, t := range fr.Topics {
		rt := kmsg.NewFetchResponseTopic()
		rt.Topic, rt.TopicID = t.Topic, t.TopicID
		name := t.Topic
		if name == "" {
			name = b.c.names[t.TopicID]
		}
		for _, p := range t.Partitions {
			tp := vsymTP27{name, p.Partition}
			// (a partition left out of a reply and a dropped connection each happen at most once
			// per run: fetch retries transport errors as well, the product is too large otherwise)
			n := 5
			if b.c.oddities >= 1 {
				n = 3
			}
			outcome := vsym_Choose("backend-outcome", n)
			if outcome >= 3 {
				b.c.oddities++
			}
			b.c.sends[tp] = append(b.c.sends[tp], vsymSend{b.name, outcome})
			rp := kmsg.NewFetchResponseTopicPartition()
			rp.Partition = p.Partition
			switch outcome {
			case 0:
				b.c.success[tp]++
				rp.HighWatermark = 7
				rp.RecordBatches = []byte{9, 9, 9}
			case 1:
				rp.ErrorCode = protocol.NOT_LEADER_OR_FOLLOWER
			case 2:
				rp.ErrorCode = protocol.UNKNOWN_TOPIC_OR_PARTITION
			case 3:
				continue
			case 4:
				drop = true
			}
			rt.Partitions = append(rt.Partitions, rp)
		}
		resp.Topics = append(resp.Topics, rt)
	}
	if drop {
		b.dropped = true
		return
	}
	payload := protocol.EncodeResponse(hdr.CorrelationID, hdr.APIVersion, resp)
	b.out = binary.BigEndian.AppendUint32(b.out, uint32(len(payload)))
	b.out = append(b.out, payload...)
}

func (b *vsymBackendConn) Read(p []byte) (int, error) {
	if len(b.out) == 0 {
		return 0, io.EOF
	}
	n := copy(p, b.out)
	b.out = b.out[n:]
	return n, nil
}
func (b *vsymBackendConn) Close() error                       { b.closed = true; return nil }
func (b *vsymBackendConn) LocalAddr() net.Addr                { return nil }
func (b *vsymBackendConn) RemoteAddr() net.Addr               { return nil }
func (b *vsymBackendConn) SetDeadline(t time.Time) error      { return nil }
func (b *vsymBackendConn) SetReadDeadline(t time.Time) error  { return nil }
func (b *vsymBackendConn) SetWriteDeadline(t time.Time) error { return nil }

// The proxy dials TCP in two places (the pool's Borrow and the round-robin fallback
// connectBackendExcluding). The spec rewrites both dialer.DialContext calls (a source rewrite
// re-derived from /repo on every run) into vsymC27Dial, which hands out a fresh in-memory
// connection to the named backend when the context carries the harness's cluster.
type vsymC27Ctx struct {
	context.Context
	cl *vsymCluster
}

type vsymC27Key struct{}

func (c vsymC27Ctx) Value(k any) any {
	if _, ok := k.(vsymC27Key); ok {
		return c.cl
	}
	return c.Context.Value(k)
}

func vsymC27Dial(ctx context.Context, d net.Dialer, addr string) (net.Conn, error) {
	if cl, ok := ctx.Value(vsymC27Key{}).(*vsymCluster); ok {
		return &vsymBackendConn{name: addr, c: cl}, nil
	}
	return d.DialContext(ctx, "tcp", addr)
}

func VsymC27_Produce() {
	if vsym_Symbolic() {
		vsym_Override("time.Now", func() time.Time { return time.Unix(1700000000, 0) })
	}
	e := newVsymEtcd()
	if vsym_Bool("one-broker-owns-everything") {
		// a single group: the proxy may forward the client's frame as it came
		for _, k := range []string{"t/0", "t/1", "u/0"} {
			e.put("/kafscale/partition-leases/"+k, []byte("1"), 0)
		}
	} else {
		e.put("/kafscale/partition-leases/t/0", []byte("1"), 0)
		e.put("/kafscale/partition-leases/t/1", []byte("2"), 0)
		if vsym_Bool("u-owned") {
			e.put("/kafscale/partition-leases/u/0", []byte("2"), 0)
		}
	}
	router, err := metadata.NewPartitionRouter(context.Background(), e.client("proxy"), slog.New(slog.NewTextHandler(io.Discard, nil)))
	vsym_Assert(err == nil, "C27/router")
	cl := &vsymCluster{sends: map[vsymTP27][]vsymSend{}, success: map[vsymTP27]int{}}
	addrs := map[string]string{"1": "b1:9092", "2": "b2:9092"}
	p := &proxy{
		store:          metadata.NewInMemoryStore(metadata.ClusterMetadata{}),
		logger:         slog.New(slog.NewTextHandler(io.Discard, nil)),
		router:         router,
		brokerAddrs:    addrs,
		backends:       []string{"b1:9092", "b2:9092"},
		backendRetries: 1,
		dialTimeout:    time.Second,
		topicNames:     map[[16]byte]string{},
	}
	pool := newConnPool(time.Second)
	pool.conns["b1:9092"] = &vsymBackendConn{name: "b1:9092", c: cl}
	pool.conns["b2:9092"] = &vsymBackendConn{name: "b2:9092", c: cl}
	tps := []vsymTP27{{"t", 0}, {"t", 1}, {"u", 0}}
	req := kmsg.NewPtrProduceRequest()
	req.Version, req.Acks, req.TimeoutMillis = 7, 1, 1000
	for _, name := range []string{"t", "u"} {
		rt := kmsg.NewProduceRequestTopic()
		rt.Topic = name
		for _, tp := range tps {
			if tp.topic == name {
				rp := kmsg.NewProduceRequestTopicPartition()
				rp.Partition, rp.Records = tp.part, []byte{1, 2, 3}
				rt.Partitions = append(rt.Partitions, rp)
			}
		}
		req.Topics = append(req.Topics, rt)
	}
	cid := "c"
	hdr := &protocol.RequestHeader{APIKey: 0, APIVersion: 7, CorrelationID: 5, ClientID: &cid}
	ctx := vsymC27Ctx{context.Background(), cl}
	groups := p.groupPartitionsByBroker(ctx, req, nil)
	// the client's own frame, as handleProduceRouting passes it along (nil after an LFS rewrite)
	var original []byte
	if vsym_Bool("original-frame-available") {
		original = encodeProduceRequest(hdr, req)
	}
	out, err := p.forwardProduce(ctx, hdr, req, original, groups, pool)
	vsym_Assert(err == nil && len(out) > 4, "C27/reply-produced")
	resp, perr := parseProduceResponse(out, 7)
	vsym_Assert(perr == nil, "C27/reply-decodes")
	vsym_Reach("replied")
	got := map[vsymTP27][]int16{}
	for _, t := range resp.Topics {
		for _, pt := range t.Partitions {
			tp := vsymTP27{t.Topic, pt.Partition}
			got[tp] = append(got[tp], pt.ErrorCode)
		}
	}
	for _, tp := range tps {
		vsym_Assert(len(got[tp]) == 1, "C27/exactly-one-reply-entry-per-requested-partition")
		if len(got[tp]) == 1 && got[tp][0] == 0 {
			vsym_Assert(cl.success[tp] >= 1, "C27/success-only-if-a-broker-reported-success")
		}
		vsym_Assert(cl.success[tp] <= 1, "C27/no-partition-written-twice")
		for i := 1; i < len(cl.sends[tp]); i++ {
			vsym_Assert(cl.sends[tp][i-1].outcome == 1, "C27/resent-only-after-not-leader")
		}
	}
	for tp := range got {
		known := false
		for _, q := range tps {
			if q == tp {
				known = true
			}
		}
		vsym_Assert(known, "C27/no-entry-for-a-partition-that-was-not-requested")
	}
}

// VsymC27_Fetch: the same world for a fetch of t/0, t/1, u/0, addressed by name (v11) or by topic
// id (v13), through the real resolveFetchTopicNames, groupFetchPartitionsByBroker and forwardFetch.
func VsymC27_Fetch() {
	if vsym_Symbolic() {
		vsym_Override("time.Now", func() time.Time { return time.Unix(1700000000, 0) })
	}
	e := newVsymEtcd()
	e.put("/kafscale/partition-leases/t/0", []byte("1"), 0)
	e.put("/kafscale/partition-leases/t/1", []byte("2"), 0)
	if vsym_Bool("u-owned") {
		e.put("/kafscale/partition-leases/u/0", []byte("2"), 0)
	}
	router, err := metadata.NewPartitionRouter(context.Background(), e.client("proxy"), slog.New(slog.NewTextHandler(io.Discard, nil)))
	vsym_Assert(err == nil, "C27/router")
	ids := map[string][16]byte{"t": metadata.TopicIDForName("t"), "u": metadata.TopicIDForName("u")}
	cl := &vsymCluster{sends: map[vsymTP27][]vsymSend{}, success: map[vsymTP27]int{}, names: map[[16]byte]string{ids["t"]: "t", ids["u"]: "u"}}
	p := &proxy{
		store:          metadata.NewInMemoryStore(metadata.ClusterMetadata{}),
		logger:         slog.New(slog.NewTextHandler(io.Discard, nil)),
		router:         router,
		brokerAddrs:    map[string]string{"1": "b1:9092", "2": "b2:9092"},
		backends:       []string{"b1:9092", "b2:9092"},
		backendRetries: 1,
		dialTimeout:    time.Second,
		topicNames:     map[[16]byte]string{ids["t"]: "t", ids["u"]: "u"},
	}
	pool := newConnPool(time.Second)
	pool.conns["b1:9092"] = &vsymBackendConn{name: "b1:9092", c: cl}
	pool.conns["b2:9092"] = &vsymBackendConn{name: "b2:9092", c: cl}
	byID := vsym_Bool("by-topic-id")
	version := int16(11)
	if byID {
		version = 13
	}
	tps := []vsymTP27{{"t", 0}, {"t", 1}, {"u", 0}}
	req := kmsg.NewPtrFetchRequest()
	req.Version, req.MaxWaitMillis, req.MaxBytes, req.ReplicaID = version, 0, 1<<20, -1
	for _, name := range []string{"t", "u"} {
		rt := kmsg.NewFetchRequestTopic()
		if byID {
			rt.TopicID = ids[name]
		} else {
			rt.Topic = name
		}
		for _, tp := range tps {
			if tp.topic == name {
				rp := kmsg.NewFetchRequestTopicPartition()
				rp.Partition, rp.PartitionMaxBytes = tp.part, 1<<20
				rt.Partitions = append(rt.Partitions, rp)
			}
		}
		req.Topics = append(req.Topics, rt)
	}
	cid := "c"
	hdr := &protocol.RequestHeader{APIKey: 1, APIVersion: version, CorrelationID: 5, ClientID: &cid}
	ctx := vsymC27Ctx{context.Background(), cl}
	payload := encodeFetchRequest(hdr, req)
	out, err := p.handleFetchRouting(ctx, hdr, payload, pool)
	vsym_Assert(err == nil && len(out) > 4, "C27/reply-produced")
	resp, perr := parseFetchResponse(out, version)
	vsym_Assert(perr == nil, "C27/reply-decodes")
	vsym_Reach("fetch-replied")
	got := map[vsymTP27][]int16{}
	for _, t := range resp.Topics {
		name := t.Topic
		if name == "" {
			name = cl.names[t.TopicID]
		}
		for _, pt := range t.Partitions {
			tp := vsymTP27{name, pt.Partition}
			got[tp] = append(got[tp], pt.ErrorCode)
		}
	}
	for _, tp := range tps {
		vsym_Assert(len(got[tp]) == 1, "C27/exactly-one-reply-entry-per-requested-partition")
		if len(got[tp]) == 1 && got[tp][0] == 0 {
			vsym_Assert(cl.success[tp] >= 1, "C27/success-only-if-a-broker-reported-success")
		}
	}
	for tp := range got {
		known := false
		for _, q := range tps {
			if q == tp {
				known = true
			}
		}
		vsym_Assert(known, "C27/no-entry-for-a-partition-that-was-not-requested")
	}
}

func VsymC27_Twin() {
	cl := &vsymCluster{sends: map[vsymTP27][]vsymSend{}, success: map[vsymTP27]int{}}
	c := &vsymBackendConn{name: "b", c: cl}
	vsym_Assert(c.closed || vsym_Bool("z"), "C27/twin")
}
