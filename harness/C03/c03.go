package storage

// C03 — fetch returns exactly the acknowledged bytes, in order.

func vsymReadParams() (int32, bool, bool, bool) {
	interval := int32(1)
	if vsym_Param("sparse") == 1 {
		interval = 100
	}
	return interval, vsym_Param("cache") == 1, vsym_Param("hole") == 1, vsym_Param("restart") == 1
}

func VsymC03_Read() {
	vsymReadWide = vsym_Param("wide") == 1
	if vsymReadWide && (vsym_Param("sparse") == 1 || vsym_Param("hole") == 1 || vsym_Param("restart") == 1) {
		return // the wide layout is explored with a dense index, without hole and restart
	}
	w := vsymBuildReadWorld(vsymReadParams())
	vsymCheckRead(w, 3)
}

// the same world, read while the buffered batch is being uploaded and a newer one has arrived
func VsymC03_ReadMidFlush() {
	vsymReadWide = false
	w := vsymBuildReadWorld(int32(1), vsym_Param("cache") == 1, false, false)
	vsymCheckReadMidFlush(w, 3)
}

// two partitions over the same S3 model and the same cache never see each other's bytes
func VsymC03_OtherPartition() {
	vsymReadWide = false
	w := vsymBuildReadWorld(1, true, false, false)
	other := NewPartitionLog("ns", "t", 1, 0, w.s3, w.l.cache, w.l.cfg, nil, nil, nil)
	_, err := other.RestoreFromS3(bgCtx())
	vsym_Assert(err == nil, "C03/other-partition-restore")
	got, err := other.Read(bgCtx(), vsym_Int64("offset"), 100)
	vsym_Reach("other")
	vsym_Assert(err != nil && len(got) == 0, "C03/other-partition-sees-nothing")
}

func VsymC03_Twin() {
	vsymReadWide = false
	w := vsymBuildReadWorld(1, false, false, false)
	got, _ := w.l.Read(bgCtx(), 0, 400)
	vsym_Assert(len(got) != 61+70, "C03/twin")
}
