package main

import (
	"github.com/twmb/franz-go/pkg/kmsg"
)

// C03 (broker level) — a fetch never hands out bytes of a produce that has not been acknowledged.
// One producer (acks=all, the default flush-on-ack mode) and one consumer fetching at the log end
// run concurrently through the real handler; the segment and index uploads are scheduling points
// and the upload may fail (then the produce is refused). Whatever the consumer receives must
// belong to a produce that was acknowledged.
func VsymC03_FetchDuringProduce() {
	b := vsymNewBroker()
	failing := vsym_Bool("upload-fails")
	b.s3.failUp = func(key string) bool { return failing }
	b.s3.onCall = func(op, key string) { vsym_Event(op + ":" + key) }
	vsym_ExploreEvents()
	vsym_PreemptionBound(2)
	acked := false
	var fetched []byte
	var fetchCode int16
	vsym_Go(func() {
		codes := b.vsymProduce(vsymProduceReq(-1, []vsymTP{{"t0", 0}}, []byte{0xB1, 0xB1}))
		acked = codes[vsymTP{"t0", 0}] == 0
	})
	vsym_Go(func() {
		vsym_Event("fetch")
		req := vsymFetchReq([]vsymTP{{"t0", 0}}, 0)
		resp := b.vsymCall("consumer", req).(*kmsg.FetchResponse)
		fetchCode = resp.Topics[0].Partitions[0].ErrorCode
		fetched = resp.Topics[0].Partitions[0].RecordBatches
	})
	vsym_Join()
	vsym_Reach("fetched-during-produce")
	if len(fetched) > 0 {
		vsym_Reach("data-fetched")
		vsym_Assert(fetchCode == 0 && acked, "C03/fetch-returns-only-acknowledged-bytes")
	}
}
