#!/bin/sh
# repotest.sh <module-dir-relative-to-/repo or .> <pkgs...> : run the repository's own tests offline
export GOFLAGS=-mod=mod GOPROXY=off GOSUMDB=off GOTOOLCHAIN=local
export PATH=/root/go/pkg/mod/golang.org/toolchain@v0.0.1-go1.25.2.linux-amd64/bin:$PATH
m=$1; shift
cd "${VERIF_REPO:-/repo}/$m" && go test -vet=off -count=1 -timeout 25m "$@"
