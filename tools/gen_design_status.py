#!/usr/bin/env python3
"""Regenerates the generated tables of DESIGN.md §11 (between the GENERATED markers) from
harness/*/spec.json, evidence/*.json, known_findings.json and seeded/detection.json."""
import json, os, glob, re
root = '/verif'
man = json.load(open(root + '/MANIFEST.json'))
out = []
out.append("#### 11.2.1 Registered checks (generated)\n")
out.append("| id | units (package: harness functions) | quick: paths / solver queries / wall | last thorough run (thorough_runs/): paths / solver queries / wall |")
out.append("|---|---|---|---|")
for c in man['checks']:
    pid = c['property_id']
    s = json.load(open(f'{root}/harness/{pid}/spec.json'))
    units = s.get('units') or [s]
    desc = []
    for u in units:
        fns = ', '.join(h['func'].replace('Vsym' + pid + '_', '') for h in u['harnesses'] if not h.get('twin'))
        mod = (u.get('module_dir', '.') + '/').replace('./', '') if u.get('module_dir', '.') != '.' else ''
        desc.append(f"`{mod}{u['package']}`: {fns}")
    ev = f'{root}/evidence/{pid}.json'
    stat = ''
    if os.path.exists(ev):
        e = json.load(open(ev)); cov = e['coverage']
        stat = f"{cov.get('states', '?')} / {cov.get('solver', {}).get('queries', '?')} / {e.get('wall_s', '?')} s ({e.get('tier')})"
    tv = f'{root}/thorough_runs/{pid}.json'
    tstat = ''
    if os.path.exists(tv):
        e = json.load(open(tv)); cov = e['coverage']
        tstat = f"{cov.get('states', '?')} / {cov.get('solver', {}).get('queries', '?')} / {e.get('wall_s', '?')} s"
    out.append(f"| {pid} | {'; '.join(desc)} | {stat} | {tstat} |")
out.append("")
out.append("Bounds and assumptions of each check are the `level_claimed.text` / `level_note` of its MANIFEST.json entry (generated from the same spec.json files).\n")
kf = json.load(open(root + '/known_findings.json'))['findings']
out.append("#### 11.3.1 Findings (generated from known_findings.json)\n")
out.append("| property | id | status | commit | what |")
out.append("|---|---|---|---|---|")
for f in kf:
    what = f['what']
    what = re.sub(r'^fixed: property=\S+ \S+ ', '', what)
    out.append(f"| {f['property']} | {f['id']} | {f['status']} | {f.get('commit', '')} | {what.replace('|', '/')[:420]} |")
out.append("")
dp = root + '/seeded/detection.json'
if os.path.exists(dp):
    det = json.load(open(dp))
    for extra in ('detection_b.json', 'detection_redo.json'):
        ep = root + '/seeded/' + extra
        if os.path.exists(ep):
            for k, v in json.load(open(ep)).items():
                # a later run replaces an earlier "missed"
                if k not in det or not det[k].get('caught_by') or extra == 'detection_redo.json':
                    det[k] = v
    out.append("#### 11.5.1 Seeded changes and the checks that catch them (generated from seeded/detection.json)\n")
    out.append("| seeded change | what it changes | caught by (quick tier) | violated assertion |")
    out.append("|---|---|---|---|")
    for n in sorted(det):
        m = json.load(open(f'{root}/seeded/{n}/meta.json'))
        d = det[n]
        summ = (m.get('summary') or '').replace('|', '/').replace('\n', ' ')[:200]
        if 'error' in d:
            out.append(f"| {n} | {summ} | (not run: {d['error'][:80]}) | |")
            continue
        caught = ', '.join(d['caught_by']) or ('(neutralised by a later fix: commit — see meta.json)' if d.get('neutralised') else '**missed**')
        labels = '; '.join(sorted({re.sub(r'^C\d+-Vsym', '', v) for c in d['checks'].values() for v in c['violations']}))[:160]
        out.append(f"| {n} | {summ} | {caught} | {labels} |")
    out.append("")
text = open(root + '/DESIGN.md').read()
b, e = '<!-- BEGIN GENERATED -->', '<!-- END GENERATED -->'
i, j = text.index(b), text.index(e)
text = text[:i + len(b)] + '\n' + '\n'.join(out) + '\n' + text[j:]
open(root + '/DESIGN.md', 'w').write(text)
print("ok")
