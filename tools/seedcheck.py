#!/usr/bin/env python3
"""seedcheck.py <mutant-dir> [--confirm] [--repo] [--tier quick|thorough] [--props C01,C02]

Development-time tool (not a registered check). A mutant dir holds patch.diff, a demo test
(zz_seed_demo_test.go, tests named TestSeedDemo*) and notes.json/meta.json with "property" and
"demo_pkg_dir".

--confirm : in a scratch worktree of /repo (created under /tmp, removed afterwards) show that the
            demo passes without the patch, fails with it, and that the existing tests of the
            touched packages still pass with it.
default   : run the property's check against the patched code and report whether it raised a
            VIOLATION. Without --repo the check reads a scratch worktree through VERIF_REPO;
            with --repo the patch is applied to /repo itself and undone straight afterwards.
"""
import json, os, subprocess, sys, tempfile, shutil, re

TOOL = "/root/go/pkg/mod/golang.org/toolchain@v0.0.1-go1.25.2.linux-amd64/bin"
ENV = dict(os.environ, GOFLAGS="-mod=mod", GOPROXY="off", GOSUMDB="off", GOTOOLCHAIN="local",
           PATH=TOOL + ":" + os.environ["PATH"])
MODS = ["addons/processors/iceberg-processor", "addons/processors/skeleton", "addons/processors/sql-processor"]


def sh(cmd, cwd=None, env=None, timeout=3600):
    p = subprocess.run(cmd, shell=True, cwd=cwd, env=env or ENV, capture_output=True, text=True, timeout=timeout)
    return p.returncode, p.stdout + p.stderr


def split_mod(rel):
    for m in MODS:
        if rel == m or rel.startswith(m + "/"):
            return m, rel[len(m):].lstrip("/") or "."
    return ".", rel


def load_meta(d):
    for n in ("meta.json", "notes.json"):
        p = os.path.join(d, n)
        if os.path.exists(p):
            return json.load(open(p))
    raise SystemExit("no meta.json/notes.json in " + d)


def demo_file(d):
    for n in os.listdir(d):
        if n.endswith("_test.go") or n.endswith("_test.go.txt"):
            return os.path.join(d, n)
    return None


def new_worktree():
    wt = tempfile.mkdtemp(prefix="seedwt-", dir="/tmp")
    os.rmdir(wt)
    rc, out = sh(f"git -C /repo worktree add -q --detach {wt} HEAD")
    if rc != 0:
        raise SystemExit(out)
    return wt


def rm_worktree(wt):
    sh(f"git -C /repo worktree remove --force {wt}")
    shutil.rmtree(wt, ignore_errors=True)


def run_demo(wt, meta, d):
    mod, pkg = split_mod(meta["demo_pkg_dir"].strip("/"))
    dst = os.path.join(wt, meta["demo_pkg_dir"], "zz_seed_demo_test.go")
    shutil.copy(demo_file(d), dst)
    try:
        return sh(f"go test -vet=off -count=1 -timeout 20m -run 'Seed' ./{pkg}/", cwd=os.path.join(wt, mod))
    finally:
        os.remove(dst)


def touched_pkgs(patch):
    pk = set()
    for l in open(patch):
        m = re.match(r"\+\+\+ b/(.*)", l)
        if m and m.group(1).endswith(".go"):
            pk.add(os.path.dirname(m.group(1)))
    return sorted(pk)


def confirm(d):
    meta = load_meta(d)
    patch = os.path.join(d, "patch.diff")
    wt = new_worktree()
    res = {}
    try:
        rc, out = run_demo(wt, meta, d)
        res["demo_without_patch"] = "pass" if rc == 0 else "FAIL"
        res["demo_without_patch_tail"] = out[-400:] if rc != 0 else ""
        rc, out = sh(f"git apply {patch}", cwd=wt)
        if rc != 0:
            res["apply"] = out
            return res
        rc, out = run_demo(wt, meta, d)
        res["demo_with_patch"] = "fail" if rc != 0 else "PASS(unexpected)"
        res["demo_with_patch_tail"] = out[-600:]
        pk = set(touched_pkgs(patch)) | {meta["demo_pkg_dir"].strip("/")}
        extra = {"pkg/storage": ["cmd/broker", "pkg/broker"], "pkg/metadata": ["cmd/broker", "pkg/broker", "cmd/proxy"],
                 "pkg/broker": ["cmd/broker"], "pkg/protocol": ["pkg/broker", "cmd/broker", "cmd/proxy"], "pkg/cache": ["pkg/storage", "cmd/broker"]}
        for p in list(pk):
            pk.update(extra.get(p, []))
        bymod = {}
        for p in pk:
            mod, rel = split_mod(p)
            bymod.setdefault(mod, []).append("./" + rel + "/")
        ok = True
        cmds = []
        for mod, rels in bymod.items():
            cmd = "go test -vet=off -count=1 -timeout 25m " + " ".join(sorted(rels))
            cmds.append(f"(cd {mod} && {cmd})")
            rc, out = sh(cmd, cwd=os.path.join(wt, mod))
            if rc != 0:
                ok = False
                res["existing_tests_tail"] = out[-1500:]
        res["existing_tests_with_patch"] = "pass" if ok else "FAIL"
        res["existing_tests_cmds"] = cmds
    finally:
        rm_worktree(wt)
    return res


def detect(d, use_repo, tier, props):
    meta = load_meta(d)
    patch = os.path.join(d, "patch.diff")
    props = props or [meta["property"]]
    out_all = {}
    if use_repo:
        rc, out = sh("git -C /repo status --porcelain")
        if out.strip():
            raise SystemExit("/repo is not clean:\n" + out)
        rc, out = sh(f"git -C /repo apply {patch}")
        if rc != 0:
            raise SystemExit(out)
        env = ENV
        wt = None
    else:
        wt = new_worktree()
        rc, out = sh(f"git apply {patch}", cwd=wt)
        if rc != 0:
            rm_worktree(wt)
            raise SystemExit(out)
        env = dict(ENV, VERIF_REPO=wt, VERIF_DIR=tempfile.mkdtemp(prefix="seedev-", dir="/tmp"))
        shutil.copy("/verif/known_findings.json", env["VERIF_DIR"])
    try:
        for pid in props:
            rc, out = sh(f"/verif/bin/gosym -spec /verif/harness/{pid}/spec.json -tier {tier}", cwd="/verif", env=env, timeout=7200)
            lines = [l for l in out.splitlines() if l.startswith(("VIOLATION", "  harness=", "INCONCLUSIVE", "OK ", "KNOWN-FINDING"))]
            out_all[pid] = {"exit": rc, "lines": [l[:300] for l in lines[:12]]}
    finally:
        if use_repo:
            sh("git -C /repo checkout -- .")
        else:
            rm_worktree(wt)
            shutil.rmtree(env["VERIF_DIR"], ignore_errors=True)
    return out_all


if __name__ == "__main__":
    args = sys.argv[1:]
    d = os.path.abspath(args[0])
    tier = args[args.index("--tier") + 1] if "--tier" in args else "quick"
    props = args[args.index("--props") + 1].split(",") if "--props" in args else None
    if "--confirm" in args:
        print(json.dumps(confirm(d), indent=1))
    else:
        print(json.dumps(detect(d, "--repo" in args, tier, props), indent=1))
