#!/usr/bin/env python3
"""Derives harness/C33/sql.go and skeleton.go from iceberg.go (the three processors share the loop)."""
import re
d='/verif/harness/C33/'
s=open(d+'iceberg.go').read()
q=re.sub(r'// BEGIN iceberg-only\n(.*\n)*?// END iceberg-only\n', '', s)
for imp in ('\t"encoding/json"\n', '\t"io"\n', '\t"github.com/KafScale/platform/pkg/lfs"\n'):
    q=q.replace(imp,'')
q=q.replace('github.com/KafScale/platform/addons/processors/iceberg-processor','github.com/kafscale/platform/addons/processors/sql-processor')
q=q.replace('\t"github.com/prometheus/client_golang/prometheus"\n','')
q=q.replace('C33 (Iceberg processor)','C33 (SQL processor)')
q=q.replace("Key: []byte{byte(id)}, Value: []byte{byte('a' + id)}","Key: []byte{byte('a' + id)}, Value: []byte{byte(id)}")
q=q.replace('i := int(r.Key[0])','i := int(r.Payload[0])')
a=q.index('type vsymC33Counter'); b=q.index('// newVsymC33World')
q=q[:a]+'func vsymC33Quiet() {}\n\n'+q[b:]
q=q.replace('''	cfg := config.Config{}
	cfg.Processor.PollIntervalSeconds = 1
	p := &Processor{cfg: cfg, discover: vsymC33Lister{w}, decode: vsymC33Decoder{w}, store: vsymC33Store{w}, sink: vsymC33Sink{w}, mappingByTopic: map[string]config.Mapping{}}''','''	p := &Processor{cfg: config.Config{}, discover: vsymC33Lister{w}, decode: vsymC33Decoder{w}, store: vsymC33Store{w}, sink: vsymC33Sink{w}, locks: newTopicLocker()}''')
q=q.replace('''	cfg := config.Config{}
	cfg.Processor.PollIntervalSeconds = 1
	cfg.Offsets.Backend = "none"
	st, err := checkpoint.New(cfg)
	vsym_Assert(err == nil, "C33/store-built")
	p := &Processor{cfg: cfg, discover: vsymC33Lister{w}, decode: vsymC33Decoder{w}, store: vsymC33Observed{st, w}, sink: vsymC33Sink{w}, mappingByTopic: map[string]config.Mapping{}}''','''	p := &Processor{cfg: config.Config{}, discover: vsymC33Lister{w}, decode: vsymC33Decoder{w}, store: vsymC33Observed{checkpoint.New(), w}, sink: vsymC33Sink{w}, locks: newTopicLocker()}''')
# the renewal interval is a constant in these two processors: no renewal firing
q=re.sub(r'\tif vsym_Param\("renewals"\) == 1 \{\n(.*\n)*?\t\}\n', '', q, count=1)
q=q.replace('Iceberg','Sql')
assert 'mappingByTopic' not in q and 'leaseRenewInterval' not in q
open(d+'sql.go','w').write(q)
k=q.replace('github.com/kafscale/platform/addons/processors/sql-processor','github.com/KafScale/platform/addons/processors/skeleton')
k=k.replace('C33 (SQL processor)','C33 (skeleton processor)').replace('Sql','Skeleton')
k=k.replace('Decode(ctx context.Context, segmentKey, indexKey, topic string, partition int32) ([]decoder.Record, error)','Decode(ctx context.Context, segmentKey, indexKey string) ([]decoder.Batch, error)')
k=k.replace('decoder.Record','decoder.Batch')
k=k.replace("Timestamp: 1000 + int64(id), Key: []byte{byte('a' + id)}, Value: []byte{byte(id)}","Payload: []byte{byte(id)}")
open(d+'skeleton.go','w').write(k)
