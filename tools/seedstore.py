#!/usr/bin/env python3
"""seedstore.py <src mutant dir> <name> : copy a confirmed seeded change into /verif/seeded/<name>/"""
import json, os, shutil, sys
src, name = sys.argv[1], sys.argv[2]
dst = os.path.join('/verif/seeded', name)
os.makedirs(dst, exist_ok=True)
shutil.copy(os.path.join(src, 'patch.diff'), dst)
for n in os.listdir(src):
    if n.endswith('_test.go'):
        shutil.copy(os.path.join(src, n), os.path.join(dst, 'zz_seed_demo_test.go.txt'))
notes = json.load(open(os.path.join(src, 'notes.json')))
res = '/tmp/seedout/results/confirm_%s.json' % name
conf = json.load(open(res)) if os.path.exists(res) else {}
meta = {
    'property': notes['property'],
    'summary': notes.get('summary'),
    'needs': notes.get('needs'),
    'demo_pkg_dir': notes.get('demo_pkg_dir'),
    'demo': 'zz_seed_demo_test.go.txt (copy into demo_pkg_dir as zz_seed_demo_test.go; go test -run TestSeedDemo)',
    'origin': 'written by an independent sub-agent that saw only the property text and a scratch worktree',
    'confirmed': {k: conf.get(k) for k in ('demo_without_patch', 'demo_with_patch', 'existing_tests_with_patch', 'existing_tests_cmds')},
    'what_i_ran': 'tools/seedcheck.py <dir> --confirm (scratch worktree: demo without patch, demo with patch, existing tests of touched and dependent packages with patch); tools/seedcheck.py <dir> (the property check against the patched tree)',
}
json.dump(meta, open(os.path.join(dst, 'meta.json'), 'w'), indent=1)
print(dst)
