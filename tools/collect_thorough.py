#!/usr/bin/env python3
"""collect_thorough.py <dir>...: copies the evidence written by thorough runs (VERIF_DIR=<dir>) into
/verif/thorough_runs/<id>.json — newest clean (exit 0, tier thorough) run per property. The evidence
directory itself always holds the last run of either tier; this keeps what the thorough tier covered."""
import json, os, sys, glob, shutil
best = {}
for d in sys.argv[1:]:
    for f in glob.glob(d + '/evidence/C*.json'):
        try:
            e = json.load(open(f))
        except Exception:
            continue
        if e.get('tier') != 'thorough' or e['coverage'].get('exit') != 0 or e.get('violations'):
            continue
        pid = os.path.basename(f)[:-5]
        if pid not in best or os.path.getmtime(f) > os.path.getmtime(best[pid]):
            best[pid] = f
os.makedirs('/verif/thorough_runs', exist_ok=True)
for pid, f in sorted(best.items()):
    shutil.copy(f, f'/verif/thorough_runs/{pid}.json')
print(len(best), 'collected:', ' '.join(sorted(best)))
