#!/opt/veriftools/pyvenv/bin/python
import json, jsonschema, glob, sys
jsonschema.validate(json.load(open('/verif/MANIFEST.json')), json.load(open('/root/.vp/MANIFEST.schema.json')))
print('manifest ok')
sch = json.load(open('/root/.vp/EVIDENCE.schema.json'))
for f in sorted(glob.glob('/verif/evidence/*.json')):
    try:
        jsonschema.validate(json.load(open(f)), sch)
    except Exception as e:
        print('BAD', f, str(e)[:300]); continue
print('evidence checked')
