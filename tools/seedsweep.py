#!/usr/bin/env python3
"""seedsweep.py [names...]: run the property check(s) against every stored seeded change (scratch worktree,
VERIF_REPO) and write /verif/seeded/detection.json. Development-time tool."""
import json, os, subprocess, sys, glob
extra = {"C07-m1": ["C07", "C08"], "C02-m4": ["C02", "C06"]}   # code that sits between two properties
args = [a for a in sys.argv[1:] if not a.startswith('--')]
names = args or sorted(os.path.basename(d) for d in glob.glob('/verif/seeded/C*-m*'))
out_path = '/verif/seeded/detection.json'
for a in sys.argv[1:]:
    if a.startswith('--out='):
        out_path = a[len('--out='):]
if '--reverse' in sys.argv:
    names = names[::-1]
if '--skip-done' in sys.argv:
    done = set()
    for f in ('/verif/seeded/detection.json', '/verif/seeded/detection_b.json'):
        if os.path.exists(f):
            done |= set(json.load(open(f)))
    names = [n for n in names if n not in done]
res = json.load(open(out_path)) if os.path.exists(out_path) else {}
for n in names:
    d = '/verif/seeded/' + n
    meta = json.load(open(d + '/meta.json'))
    if meta.get('status') == 'neutralised':
        res[n] = {"checks": {}, "caught_by": [], "neutralised": meta.get('status_note', '')}
        json.dump(res, open(out_path, 'w'), indent=1)
        print(n, "neutralised", flush=True)
        continue
    props = extra.get(n, [meta['property']])
    p = subprocess.run(['python3', '/verif/tools/seedcheck.py', d, '--props', ','.join(props)], capture_output=True, text=True)
    try:
        r = json.loads(p.stdout)
    except Exception:
        res[n] = {"error": (p.stdout + p.stderr)[-400:]}
        json.dump(res, open(out_path, 'w'), indent=1)
        continue
    entry = {"checks": {}}
    for pid, v in r.items():
        labels = [l.split('replay=')[1].split('/')[-1].replace('.json', '') for l in v['lines'] if l.startswith('VIOLATION')]
        entry["checks"][pid] = {"exit": v['exit'], "violations": labels, "inconclusive": [l[:160] for l in v['lines'] if l.startswith('INCONCLUSIVE')][:2]}
    entry["caught_by"] = [pid for pid, v in entry["checks"].items() if v["exit"] == 1]
    res[n] = entry
    json.dump(res, open(out_path, 'w'), indent=1)
    print(n, entry["caught_by"] or "MISSED", flush=True)
