#!/usr/bin/env python3
"""seedrebase.py <seeded dir>: re-create patch.diff against /repo's current HEAD when a later fix: commit
changed the context lines of a stored seeded change (patch(1) with fuzz in a scratch worktree)."""
import json, os, subprocess, sys, tempfile, shutil
d = os.path.abspath(sys.argv[1])
wt = tempfile.mkdtemp(prefix="seedwt-", dir="/tmp"); os.rmdir(wt)
def sh(c, cwd=None):
    p = subprocess.run(c, shell=True, cwd=cwd, capture_output=True, text=True); return p.returncode, p.stdout + p.stderr
rc, out = sh(f"git -C /repo worktree add -q --detach {wt} HEAD"); assert rc == 0, out
try:
    rc, out = sh(f"patch -p1 --fuzz=3 --no-backup-if-mismatch < {d}/patch.diff", cwd=wt)
    print(out)
    if rc != 0:
        sys.exit("could not rebase")
    sh("find . -name '*.orig' -delete -o -name '*.rej' -delete", cwd=wt)
    rc, diff = sh("git diff", cwd=wt)
    head = sh("git rev-parse --short HEAD", cwd=wt)[1].strip()
    shutil.copy(f"{d}/patch.diff", f"{d}/patch.orig.diff")
    open(f"{d}/patch.diff", "w").write(diff)
    m = json.load(open(f"{d}/meta.json")); m["rebased_onto"] = head
    m["rebase_note"] = "context lines changed by a later fix: commit in /repo; same edit re-diffed against the new HEAD (original kept as patch.orig.diff)"
    json.dump(m, open(f"{d}/meta.json", "w"), indent=1)
finally:
    sh(f"git -C /repo worktree remove --force {wt}")
