#!/usr/bin/env python3
"""Regenerates /verif/MANIFEST.json from harness/<id>/spec.json + tools/meta.json."""
import json, os, glob
root = os.path.dirname(os.path.dirname(os.path.abspath(__file__)))
meta = json.load(open(os.path.join(root, 'tools', 'meta.json')))
props = [json.loads(l) for l in open(os.path.join(root, 'properties.jsonl'))]
checks, na = [], []
for p in props:
    pid = p['id']
    spec = os.path.join(root, 'harness', pid, 'spec.json')
    m = meta.get(pid, {})
    s = json.load(open(spec)) if os.path.exists(spec) else {}
    if s and (m.get('registered') or s.get('registered')):
        if 'level_text' not in m:
            units = s.get('what') or ', '.join(h['func'] for u in (s.get('units') or [s]) for h in u['harnesses'] if not h.get('twin'))
            m['level_text'] = ("Bounded symbolic model checking of " + units + ". Bounds: " + '; '.join(s.get('bounds', [])) +
                               ". Every value of the symbolic inputs inside these bounds is decided by the solver; nothing outside them is claimed.")
        if 'level_note' not in m:
            m['level_note'] = ("Trusted: go/ssa translation, the engine's instruction semantics (every counterexample is replayed natively before it is reported), z3. Assumptions/stubs: " +
                               '; '.join(s.get('assumptions', []) or ['none beyond DESIGN.md §3.5']))
        checks.append({
            "property_id": pid,
            "quick_cmd": f"./run {pid} quick",
            "thorough_cmd": f"./run {pid} thorough",
            "evidence_file": f"/verif/evidence/{pid}.json",
            "replay_cmd_template": f"./bin/gosym -spec harness/{pid}/spec.json -replay {{path}}",
            "engine": "gosym",
            "level_claimed": {"category": "model_checking", "text": m['level_text'], "design_ref": m.get('design_ref', f"DESIGN.md §5 {pid}")},
            "level_note": m['level_note'],
            "technique": m.get('technique', "bounded symbolic execution of the Go SSA of the real functions; z3 decides every branch and assertion over all input values within the stated bounds; counterexamples replayed natively"),
        })
    else:
        na.append({"property_id": pid, "reason": m.get('na_reason', "no check registered: harness not built or not yet conclusive on the unchanged tree in this session (see DESIGN.md §9 amendments)")})
man = {
    "version": 1,
    "setup_cmd": "./build.sh",
    "hooks": {"guard": "verif", "enable": "none needed: harnesses are injected with go/packages overlays and `go test -overlay`; no source hook exists in /repo",
              "baseline_off_cmd": meta['_baseline_off_cmd'], "source_commits": [], "add_only": True},
    "engines": [{"name": "gosym", "path": "/verif/engine", "serves_properties": [c['property_id'] for c in checks],
                 "kind_free_text": "own Go-SSA symbolic executor (x/tools go/ssa v0.50.0, vendored) + persistent z3 4.8.12 (cvc5 int-mode fallback); harnesses are in-package Go functions injected by overlay; native replay with go test -overlay"}],
    "checks": checks,
    "not_applicable": na,
    "notes": "exit 0 = held on everything explored (KNOWN-FINDING lines possible); exit 1 + VIOLATION line = replayed counterexample; exit 2 + INCONCLUSIVE lines = solver unknown / unsupported construct / bound exceeded / vacuous harness — never reported as success.",
}
json.dump(man, open(os.path.join(root, 'MANIFEST.json'), 'w'), indent=1)
print(len(checks), "checks,", len(na), "not applicable")
