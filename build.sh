#!/bin/sh
# Builds the gosym engine from the vendored sources (offline).
set -e
cd "$(dirname "$0")/engine"
export GOFLAGS=-mod=vendor GOPROXY=off GOSUMDB=off GOTOOLCHAIN=local
mkdir -p ../bin
go1.26.8 build -o ../bin/gosym ./cmd/gosym
